"""C06 — throughput counts every operation exactly once, however samples are batched (DESIGN.md section 4, C06).

Roles are derived from data flow, not from the spelling of locals / attributes of the calculator: the per-task state class is the class whose instances the calculator stores under the
task key; the running count is the local handed to the state's finishing routine - or, when no local plays that part, the attribute of the state that the operations of each sample are
added to (by a statement of the routine or inside a state method the sample is handed to) and that the finishing routine moves into the carried total; a state method called per
sample IS the updates it delegates to (add_sample -> self.update_interval / self.maybe_update_sample_type); the attributes of the state (carried total, pending samples, interval, start, sample type, has-value
flag) are the ones those values flow into. The small methods of the state class are decided on VALUES: their bodies are interpreted over representative field values
(sa.minieval on the extracted statements, never a call into the repository). The same interpreter decides what `calculate()` hands to the two per-task routines (both stubbed):
grouping by task, merge of the carried-over samples and order of the batch are decided on the VALUE of that batch for representative streams, whatever spells them (chain + sort,
sort + heapq.merge, concatenation, conditional expressions, comprehensions, extracted helpers); the structural reading of those statements is only the fallback for shapes the
interpreter cannot evaluate. A construction of a tuple-like record class (NamedTuple) is the tuple of its fields. Only the field names of `Sample` (the vocabulary of the property)
and the class / entry point names `ThroughputCalculator.calculate` / `SamplePostprocessor.__call__` are taken literally. O6.10 (what is WRITTEN for the values the calculator
returns) evaluates the post-processor with the symbolic evaluator of rules/C07 (`_Interp`: objects with named fields, uninterpreted terms for unmodelled calls, effects with the loop
elements they were produced under); it is imported lazily because C07 imports this module."""
from __future__ import annotations

import ast
import itertools

from sa import minieval, pat, source
from sa.cfg import cfg_of, guards, negate
from sa.classes import is_logging_call, is_logging_stmt
from sa.minieval import CannotEval, Record
from sa.source import AnchorMissing, dotted, inline, is_self_attr, last_attr, local_defs, params_of, short, u, walk_body
from sa.sym import rat_equal, parse_expr

_D = "esrally/driver/driver.py"

# fields of Sample the property is phrased in
_ABS, _REL, _PERIOD, _OPS, _UNIT, _STYPE, _TP = "absolute_time", "relative_time", "time_period", "total_ops", "total_ops_unit", "sample_type", "throughput"


# ---------------------------------------------------------------------------------------------------------------------------------------
# local helpers (candidates for sa/): simultaneous substitution, expression helpers inlined at their call site, reaching definition, a value-level interpreter for small methods


def _subst(expr, mapping):
    """fresh copy of expr with the loaded names in `mapping` replaced by (copies of) their expressions - one simultaneous pass, so `a -> b, b -> a` is a swap."""

    class T(ast.NodeTransformer):
        def visit_Name(self, n):
            if isinstance(n.ctx, ast.Load) and n.id in mapping:
                return source.clone(mapping[n.id])
            return n

    return T().visit(source.clone(expr))


def _plain_body(fn):
    """statements of a function without docstring and logging."""
    return [s for s in fn.body if not (isinstance(s, ast.Expr) and isinstance(s.value, ast.Constant)) and not is_logging_stmt(s)]


def _returned_expr(fn):
    """the expression a straight-line helper returns (its own single-assignment locals inlined), or None if the helper is more than assignments followed by its only return."""
    body = _plain_body(fn)
    rets = [n for n in walk_body(fn) if isinstance(n, ast.Return)]
    if len(rets) != 1 or not body or body[-1] is not rets[0] or rets[0].value is None or any(not isinstance(s, ast.Assign) for s in body[:-1]):
        return None
    return source.inline_node(rets[0].value, local_defs(fn))


def _record_classes(drv):
    """{class name: [(field, default expression or None)]} for the tuple-like record classes of the module: `class X(NamedTuple)` with its annotated fields,
    `X = namedtuple("X", "a b c" | ["a", ...])`, `X = NamedTuple("X", [("a", T), ...])`. An instance of such a class IS the tuple of its fields in declaration order (it unpacks,
    compares and hashes like that tuple), so a construction `X(...)` denotes that tuple whatever mix of positional and keyword arguments spells it. A dataclass is not a tuple and
    is not listed."""
    out = {}
    for c in drv.classes():
        if any((dotted(b) or "").split(".")[-1] == "NamedTuple" for b in c.bases):
            fields = []
            for st in c.body:
                if isinstance(st, ast.AnnAssign) and isinstance(st.target, ast.Name):
                    fields.append((st.target.id, st.value))
                elif isinstance(st, ast.Assign) and len(st.targets) == 1 and isinstance(st.targets[0], ast.Name) and not st.targets[0].id.startswith("_"):
                    fields.append((st.targets[0].id, st.value))  # N7 has turned `x: T = default` into an assignment
            if fields:
                out[c.name] = fields
    for st in drv.tree.body:
        if isinstance(st, ast.Assign) and len(st.targets) == 1 and isinstance(st.targets[0], ast.Name) and isinstance(st.value, ast.Call) and len(st.value.args) >= 2 \
                and (dotted(st.value.func) or "").split(".")[-1] in ("namedtuple", "NamedTuple"):
            spec, names = st.value.args[1], None
            if isinstance(spec, ast.Constant) and isinstance(spec.value, str):
                names = spec.value.replace(",", " ").split()
            elif isinstance(spec, (ast.List, ast.Tuple)):
                names = []
                for x in spec.elts:
                    if isinstance(x, (ast.Tuple, ast.List)) and x.elts:
                        x = x.elts[0]
                    names.append(x.value if isinstance(x, ast.Constant) and isinstance(x.value, str) else None)
            if names and all(names):
                fields = [(nm, None) for nm in names]
                dfl = source.arg_of(st.value, None, "defaults")
                if isinstance(dfl, (ast.List, ast.Tuple)) and len(dfl.elts) <= len(fields):
                    for i, d in enumerate(dfl.elts):
                        j = len(fields) - len(dfl.elts) + i
                        fields[j] = (fields[j][0], d)
                elif dfl is not None:
                    continue
                out[st.targets[0].id] = fields
    return out


class _Helpers:
    """methods of one class plus the module-level functions: what `self.m(...)`, `cls.m(...)`, `<Class>.m(...)` and `f(...)` resolve to."""

    def __init__(self, drv, cls):
        self.cls = cls
        self.methods = drv.methods(cls)
        self.funcs = {n.name: n for n in drv.tree.body if isinstance(n, source.FUNC_TYPES)}
        self.records = _record_classes(drv)
        self.state_methods = {}  # methods of the per-task state class (set by the rule once the class is known): `<local>.m(...)` with an expression helper m is inlined too

    def record_tuple(self, call):
        """the tuple a construction of a tuple-like record class (NamedTuple) denotes: its arguments in the declaration order of the fields; None if `call` is not such a
        construction or its arguments cannot be bound."""
        fields = self.records.get(last_attr(call.func)) if dotted(call.func) is not None else None
        if not fields or any(isinstance(a_, ast.Starred) for a_ in call.args) or any(k.arg is None for k in call.keywords) or len(call.args) > len(fields):
            return None
        vals = {nm: a_ for (nm, _), a_ in zip(fields, call.args)}
        for k in call.keywords:
            if k.arg in vals or k.arg not in dict(fields):
                return None
            vals[k.arg] = k.value
        elts = [vals.get(nm, d) for nm, d in fields]
        if any(x is None for x in elts):
            return None
        return ast.Tuple(elts=[source.clone(x) for x in elts], ctx=ast.Load())

    def callee(self, call):
        f = call.func
        if isinstance(f, ast.Name):
            return self.funcs.get(f.id)
        if isinstance(f, ast.Attribute):
            d = dotted(f.value)
            if d is not None and d.split(".")[-1] in ("self", "cls", self.cls.name):
                return self.methods.get(f.attr)
        return None

    def expand(self, e, depth=0):
        """fresh expression in which calls of expression helpers are replaced by what they return, arguments bound to parameters (defaults for omitted ones)."""
        H = self

        class T(ast.NodeTransformer):
            def visit_Call(self, n):
                self.generic_visit(n)
                rec = H.record_tuple(n)
                if rec is not None:
                    return rec
                fn = H.callee(n)
                recv = None
                if fn is None and isinstance(n.func, ast.Attribute) and isinstance(n.func.value, ast.Name) and n.func.value.id not in ("self", "cls") and n.func.attr in H.state_methods \
                        and (n.args or n.keywords):
                    # an expression helper of the state class that takes arguments (e.g. builds the emitted tuple from a sample): `self` is the receiver
                    fn = H.state_methods[n.func.attr]
                    recv = n.func.value if params_of(fn) and params_of(fn)[0] == "self" and not fn.decorator_list else None
                    if recv is None:
                        return n
                if fn is None or depth > 3:
                    return n
                rex = _returned_expr(fn)
                if rex is None:
                    return n
                m = dict(source.bind_args(n, fn))
                if recv is not None:
                    if any(isinstance(x, ast.Name) and x.id == "self" and not isinstance(x.ctx, ast.Load) for x in ast.walk(rex)):
                        return n
                    m["self"] = recv
                names = [p for p in params_of(fn) if p not in ("self", "cls")]
                dflt = fn.args.defaults
                for p, dv in zip(names[len(names) - len(dflt):], dflt):
                    m.setdefault(p, dv)
                if any(p not in m for p in names) or any(isinstance(a_, ast.Starred) for a_ in n.args) or any(k.arg is None for k in n.keywords):
                    return n
                return H.expand(_subst(rex, m), depth + 1)

        return T().visit(source.clone(e))

    def resolve(self, expr, func, keep=()):
        """expr as a function of the inputs of `func`: single-assignment locals (except `keep`) replaced by their definitions, expression helpers inlined."""
        defs = {k: v for k, v in local_defs(func).items() if k not in keep}
        return self.expand(source.inline_node(expr, defs))

    def closure(self, fn):
        """methods of the class reachable from fn through self.m(...) / cls.m(...) / <Class>.m(...) calls (fn included)."""
        seen, todo = [], [fn]
        while todo:
            f = todo.pop()
            if any(f is x for x in seen):
                continue
            seen.append(f)
            for n in walk_body(f):
                if isinstance(n, ast.Call) and isinstance(n.func, ast.Attribute):
                    c = self.callee(n)
                    if c is not None and c.name in self.methods:
                        todo.append(c)
        return seen


def _reaching(func, name, at):
    """value of the one assignment `name = ...` that reaches statement `at` in func (no other assignment of the name on the way), else None."""
    assigns = [n for n in walk_body(func) if isinstance(n, ast.Assign) and any(isinstance(t, ast.Name) and t.id == name for t in n.targets)]
    other = [n for n in walk_body(func) if isinstance(n, ast.Name) and n.id == name and isinstance(n.ctx, (ast.Store, ast.Del)) and not any(n is t for a_ in assigns for t in a_.targets)]
    if not assigns or other or name in params_of(func):
        return None
    g = cfg_of(func)
    try:
        at_n = g.node_of(at)
        nodes = [g.node_of(a_) for a_ in assigns]
    except KeyError:
        return None
    reach = []
    for a_, an in zip(assigns, nodes):
        others = [o for o in nodes if o is not an]
        starts = [g.nodes[y] for y, lab in g.succ[an.id] if g.normal_edge(an.id, y, lab)]
        if at_n.id in g.reachable(starts, avoid=others):
            reach.append(a_)
    return reach[0].value if len(reach) == 1 else None


def _every_iteration_passes(g, L, nodes):
    """every way through one iteration of loop L (back to its head, out of it, or out of the function by return) passes one of `nodes` - exception edges aside."""
    Lh = g.node_of(L)
    after = [n for n in g.edge_targets(Lh, "exhausted")]
    for s in g.edge_targets(Lh, "iter"):
        r = g.reachable([s], avoid=nodes, edge_ok=g.normal_edge)
        if Lh.id in r or g.exit.id in r or any(a_.id in r for a_ in after):
            return False
    return True


class _Ret(Exception):
    def __init__(self, v):
        self.v = v


class _Jump(Exception):
    """break / continue of an interpreted loop."""

    def __init__(self, kind):
        self.kind = kind


class _Iter:
    """A single-use iterator over known elements (itertools.chain, heapq.merge, iter(...), reversed(...)): its sources are read when it is consumed (a source emptied in between
    contributes nothing), consuming it leaves it empty, and - like the real thing - it is always truthy."""

    def __init__(self, sources, combine=None):
        self.sources = list(sources)
        self.combine = combine

    def take(self):
        lists = [_elements(x) for x in self.sources]
        self.sources = []
        out = self.combine(lists) if self.combine is not None else [x for l_ in lists for x in l_]
        self.combine = None
        return out


class _Gen:
    """The value of a call of a generator function: the body runs when (and only when) the generator is consumed - until then nothing of it has happened -, once; always truthy."""

    def __init__(self, thunk):
        self.thunk = thunk

    def take(self):
        t, self.thunk = self.thunk, None
        return t() if t is not None else []


def _elements(v):
    """the elements of an iterable value as a list (a single-use iterator is consumed)."""
    if isinstance(v, (_Iter, _Gen)):
        return v.take()
    if isinstance(v, (list, tuple, set, frozenset, dict, range)):
        return list(v)
    raise CannotEval(f"iteration over a {type(v).__name__}")


class _Fn:
    """A function value: a lambda or nested def together with the environment it closes over, a module-level function, or a method bound to a modelled record."""

    def __init__(self, node, env, rec=None):
        self.node = node
        self.env = env
        self.rec = rec


class _Model:
    """Value-level model of a small class: its methods are interpreted statement by statement over a Record that stands for `self`. Supported: assignments to locals, to
    attributes of a record and to items of a dict / list, augmented assignments, if / for / break / continue / return / pass, nested defs and lambdas as values (sort keys),
    list append / clear / extend / sort, dict items / values / keys / setdefault / get, sorted / list / tuple / iter / next / reversed, itertools.chain / groupby and heapq.merge as
    single-use iterators, calls of and property reads on modelled records (each record is interpreted by the model it was created by), calls of module-level functions and of
    stubs the rule installs; logging and docstrings are skipped. Anything else raises CannotEval (the obligation is then 'not recognised', never a verdict)."""

    _ids = itertools.count(1)

    def __init__(self, cls, methods):
        self.cls = cls
        self.methods = methods
        self.props = {n for n, f in methods.items() if any(dotted(d) in ("property", "functools.cached_property", "cached_property") for d in f.decorator_list)}
        self.dataclass = any((dotted(d.func if isinstance(d, ast.Call) else d) or "").split(".")[-1] == "dataclass" for d in cls.decorator_list)
        self.globals = {}  # module-level names the methods may read (e.g. an enum), as Records
        self.funcs = {}  # module-level functions the methods may call: name -> FunctionDef
        self.stubs = {}  # method name -> python function({parameter: value}) the rule installs instead of interpreting the method
        self.record_tuple = None  # function(call node) -> ast.Tuple for constructions of tuple-like record classes (NamedTuple), set by the rule
        self._depth = 0

    # -- construction ---------------------------------------------------------------------------------------------------------------
    def init_params(self):
        if "__init__" in self.methods:
            return [p for p in params_of(self.methods["__init__"]) if p != "self"]
        if self.dataclass:
            return [nm for nm, v in self._dc_fields() if self._dc_init(v)]
        return []

    def _dc_fields(self):
        out = []
        for st in self.cls.body:
            if isinstance(st, ast.AnnAssign) and isinstance(st.target, ast.Name):
                out.append((st.target.id, st.value))
            elif isinstance(st, ast.Assign) and len(st.targets) == 1 and isinstance(st.targets[0], ast.Name) and not st.targets[0].id.startswith("__"):
                out.append((st.targets[0].id, st.value))
        return out

    @staticmethod
    def _dc_field_call(v):
        return isinstance(v, ast.Call) and (dotted(v.func) or "").split(".")[-1] == "field"

    def _dc_init(self, v):
        if self._dc_field_call(v):
            k = source.arg_of(v, None, "init")
            return not (k is not None and source.is_const(k) and k.value is False)
        return True

    def attr_of_param(self, p):
        """the attribute of the instance that receives constructor parameter p unchanged."""
        if "__init__" in self.methods:
            f = self.methods["__init__"]
            hits = [t.attr for n in walk_body(f) if isinstance(n, ast.Assign) and isinstance(n.value, ast.Name) and n.value.id == p for t in n.targets if is_self_attr(t)]
            return hits[0] if len(hits) == 1 else None
        return p if self.dataclass and p in self.init_params() else None

    def bind_ctor(self, call):
        """constructor parameter -> argument expression at this construction."""
        names = self.init_params()
        out = {}
        for i, a_ in enumerate(call.args):
            if isinstance(a_, ast.Starred):
                break
            if i < len(names):
                out[names[i]] = a_
        for k in call.keywords:
            if k.arg in names:
                out[k.arg] = k.value
        return out

    def new(self, values, default=1):
        """a fresh instance: constructor parameters take `values` (name -> value), every other parameter `default`."""
        rec = Record()
        rec._model = self
        args = {p: values.get(p, default) for p in self.init_params()}
        if "__init__" in self.methods:
            self.call(rec, "__init__", **args)
        elif self.dataclass:
            for nm, v in self._dc_fields():
                if self._dc_init(v) and nm in args and (v is None or nm in values or self._dc_default(v) is _NOTHING):
                    rec.fields[nm] = args[nm]
                else:
                    d = self._dc_default(v)
                    if d is not _NOTHING:
                        rec.fields[nm] = d
            if "__post_init__" in self.methods:
                self.call(rec, "__post_init__")
        else:
            raise CannotEval(f"class {self.cls.name} has neither __init__ nor @dataclass fields")
        return rec

    def _dc_default(self, v):
        if v is None:
            return _NOTHING
        if self._dc_field_call(v):
            d = source.arg_of(v, None, "default")
            if d is not None:
                return minieval.ev(d, {})
            fac = source.arg_of(v, None, "default_factory")
            if fac is not None:
                nm = dotted(fac)
                if nm in ("list", "dict", "set"):
                    return {"list": list, "dict": dict, "set": set}[nm]()
                raise CannotEval(f"default_factory {u(fac)}")
            return _NOTHING
        return minieval.ev(v, {})

    # -- evaluation -----------------------------------------------------------------------------------------------------------------------
    @staticmethod
    def model_of(rec, default):
        return getattr(rec, "_model", None) or default

    def call(self, rec, name, *args, **kw):
        fn = self.methods.get(name)
        if fn is None:
            raise CannotEval(f"no method {name}")
        return self._invoke(fn, rec, args, kw, stub=self.stubs.get(name))

    def apply(self, f, *args, **kw):
        """call a function value."""
        if not isinstance(f, _Fn):
            if callable(f):
                return f(*args, **kw)
            raise CannotEval(f"call of a {type(f).__name__}")
        if isinstance(f.node, ast.Lambda):
            a = f.node.args
            names = [x.arg for x in a.posonlyargs + a.args]
            if a.vararg or a.kwarg or a.kwonlyargs or a.defaults or kw or len(names) != len(args):
                raise CannotEval("lambda signature")
            env = dict(f.env)
            env.update(zip(names, args))
            return self.ev(f.node.body, env)
        return self._invoke(f.node, f.rec, args, kw, closure=f.env)

    def _invoke(self, fn, rec, args, kw, closure=None, stub=None):
        ps = params_of(fn)
        static = rec is None or any(dotted(d) == "staticmethod" for d in fn.decorator_list)
        names = ps if static else ps[1:]
        env = dict(self.globals)
        env.update(closure or {})
        if not static and ps:
            env[ps[0]] = rec
        if len(args) > len(names) or any(k_ not in names for k_ in kw) or fn.args.vararg or fn.args.kwarg:
            raise CannotEval(f"{fn.name}: arguments do not fit the parameters")
        given = dict(zip(names, args))
        given.update(kw)
        dflt = fn.args.defaults
        for p, dv in zip(names[len(names) - len(dflt):], dflt):
            if p not in given:
                given[p] = minieval.ev(dv, {})
        if any(p not in given for p in names):
            raise CannotEval(f"{fn.name}: unbound parameter")
        if stub is not None:
            return stub(given)
        env.update(given)
        if any(isinstance(n, (ast.Yield, ast.YieldFrom)) for n in walk_body(fn)):
            # a generator function: the call itself runs nothing; the values are produced (and the side effects happen) when the result is consumed
            def body():
                env[_YIELDED] = out = []
                self._depth += 1
                try:
                    if self._depth > 6:
                        raise CannotEval("call depth")
                    self.run(fn.body, env)
                except _Ret:
                    pass
                finally:
                    self._depth -= 1
                return out

            return _Gen(body)
        self._depth += 1
        try:
            if self._depth > 6:
                raise CannotEval("call depth")
            self.run(fn.body, env)
        except _Ret as r:
            return r.v
        finally:
            self._depth -= 1
        return None

    def fn_value(self, node, env):
        """the function value an expression denotes (a sort key, a callback)."""
        if isinstance(node, ast.Lambda):
            return _Fn(node, env)
        if isinstance(node, ast.Name):
            if node.id in env:
                v = env[node.id]
                if isinstance(v, _Fn) or callable(v):
                    return v
            elif node.id in self.funcs:
                return _Fn(self.funcs[node.id], {})
        if isinstance(node, ast.Attribute) and node.attr in self.methods and (dotted(node.value) or "").split(".")[-1] in ("self", "cls", self.cls.name):
            owner = env.get(dotted(node.value)) if isinstance(node.value, ast.Name) else None
            return _Fn(self.methods[node.attr], {}, owner if isinstance(owner, Record) else None)
        if isinstance(node, ast.Call) and (dotted(node.func) or "").split(".")[-1] == "attrgetter" and len(node.args) == 1 and not node.keywords \
                and isinstance(node.args[0], ast.Constant) and isinstance(node.args[0].value, str) and "." not in node.args[0].value:
            field = node.args[0].value

            def getter(r):
                if isinstance(r, Record) and field in r.fields:
                    return r.fields[field]
                raise CannotEval(f"attrgetter({field!r}) on {type(r).__name__}")

            return getter
        raise CannotEval(f"function value {u(node)[:60]}")

    def ev(self, e, env):
        """minieval.ev plus: short-circuit evaluation, method calls / property reads on modelled records, helper functions, the iterator and container vocabulary listed in the
        class docstring, max / min of several arguments."""
        M = self
        if isinstance(e, ast.IfExp):
            return self.ev(e.body if self.ev(e.test, env) else e.orelse, env)
        if isinstance(e, ast.BoolOp):
            r = None
            for v in e.values:
                r = self.ev(v, env)
                if bool(r) != isinstance(e.op, ast.And):
                    return r
            return r
        if isinstance(e, (ast.ListComp, ast.SetComp, ast.GeneratorExp, ast.DictComp)):
            out = []

            def rec(i, env_):
                if i == len(e.generators):
                    out.append((self.ev(e.key, env_), self.ev(e.value, env_)) if isinstance(e, ast.DictComp) else self.ev(e.elt, env_))
                    return
                gen = e.generators[i]
                if gen.is_async:
                    raise CannotEval("async comprehension")
                for item in _elements(self.ev(gen.iter, env_)):
                    env3 = dict(env_)
                    self._store(gen.target, item, env3)
                    if all(self.ev(c, env3) for c in gen.ifs):
                        rec(i + 1, env3)

            rec(0, dict(env))
            try:
                return dict(out) if isinstance(e, ast.DictComp) else (set(out) if isinstance(e, ast.SetComp) else out)
            except TypeError as x:
                raise CannotEval(f"{u(e)[:60]}: {x}")
        env2 = dict(env)

        def bound(v):
            nm = f"_v{next(_Model._ids)}_"
            env2[nm] = v
            return ast.Name(id=nm, ctx=ast.Load())

        def val(x):
            return minieval.ev(x, env2)

        def order(call, items):
            """sort-order arguments (key=, reverse=) of sorted / list.sort / heapq.merge as python values."""
            kf, rev = None, False
            for k in call.keywords:
                if k.arg == "key":
                    if not (isinstance(k.value, ast.Constant) and k.value.value is None):
                        f_ = M.fn_value(k.value, env2)
                        kf = lambda x, f_=f_: M.apply(f_, x)  # noqa: E731
                elif k.arg == "reverse":
                    rev = bool(val(k.value))
                else:
                    raise CannotEval(f"keyword {k.arg} of {u(call.func)}")
            if kf is None and any(isinstance(x, Record) for x in items):
                raise CannotEval(f"{u(call)[:60]}: objects ordered without a key")
            return kf, rev

        class T(ast.NodeTransformer):
            def visit_Lambda(self, n):
                return n

            def visit_IfExp(self, n):
                return bound(M.ev(n, env2))

            visit_BoolOp = visit_ListComp = visit_SetComp = visit_GeneratorExp = visit_DictComp = visit_IfExp

            def visit_List(self, n):
                self.generic_visit(n)
                if any(isinstance(x, ast.Starred) for x in n.elts):
                    out = []
                    for x in n.elts:
                        out += _elements(val(x.value)) if isinstance(x, ast.Starred) else [val(x)]
                    return bound(out)
                return n

            def visit_Tuple(self, n):
                self.generic_visit(n)
                if isinstance(n.ctx, ast.Load) and any(isinstance(x, ast.Starred) for x in n.elts):
                    out = []
                    for x in n.elts:
                        out += _elements(val(x.value)) if isinstance(x, ast.Starred) else [val(x)]
                    return bound(tuple(out))
                return n

            def visit_Call(self, n):
                f = n.func
                for i, a_ in enumerate(n.args):
                    n.args[i] = self.visit(a_)
                for k in n.keywords:
                    if k.arg != "key":
                        k.value = self.visit(k.value)
                if isinstance(f, ast.Attribute):
                    f.value = self.visit(f.value)
                d = dotted(f) or ""
                plain = not n.keywords and not any(isinstance(a_, ast.Starred) for a_ in n.args)
                # ---- calls of functions of the analysed module
                if isinstance(f, ast.Name) and isinstance(env2.get(f.id), _Fn) and not any(isinstance(a_, ast.Starred) for a_ in n.args):
                    return bound(M.apply(env2[f.id], *[val(a_) for a_ in n.args], **{k.arg: val(k.value) for k in n.keywords if k.arg}))
                if isinstance(f, ast.Name) and f.id not in env2 and f.id in M.funcs and not any(isinstance(a_, ast.Starred) for a_ in n.args):
                    return bound(M._invoke(M.funcs[f.id], None, [val(a_) for a_ in n.args], {k.arg: val(k.value) for k in n.keywords if k.arg}))
                if isinstance(f, ast.Attribute) and not any(isinstance(a_, ast.Starred) for a_ in n.args):
                    if d.split(".")[-2:-1] == [M.cls.name] and f.attr in M.methods and isinstance(f.value, (ast.Name, ast.Attribute)) and d.split(".")[0] not in env2:
                        return bound(M._invoke(M.methods[f.attr], None, [val(a_) for a_ in n.args], {k.arg: val(k.value) for k in n.keywords if k.arg}, stub=M.stubs.get(f.attr)))
                    try:
                        recv = val(f.value)
                    except CannotEval:
                        recv = _NOTHING
                    if isinstance(recv, Record) and f.attr not in recv.fields:
                        Mx = M.model_of(recv, M)
                        if f.attr in Mx.methods:
                            return bound(Mx.call(recv, f.attr, *[val(a_) for a_ in n.args], **{k.arg: val(k.value) for k in n.keywords if k.arg}))
                    if isinstance(recv, dict) and plain:
                        if f.attr in ("items", "values", "keys") and not n.args:
                            return bound([tuple(x) if f.attr == "items" else x for x in getattr(recv, f.attr)()])
                        if f.attr == "setdefault" and len(n.args) == 2:
                            return bound(recv.setdefault(val(n.args[0]), val(n.args[1])))
                        if f.attr == "copy" and not n.args:
                            return bound(recv.copy())
                    if isinstance(recv, list) and plain and f.attr == "copy" and not n.args:
                        return bound(list(recv))
                if M.record_tuple is not None and not any(isinstance(a_, ast.Starred) for a_ in n.args):
                    t_ = M.record_tuple(n)
                    if t_ is not None:
                        return bound(val(t_))
                # ---- iterators and containers
                if d in ("itertools.chain", "chain") and plain:
                    return bound(_Iter([val(a_) for a_ in n.args]))
                if d in ("itertools.chain.from_iterable", "chain.from_iterable") and plain and len(n.args) == 1:
                    return bound(_Iter(_elements(val(n.args[0]))))
                if d in ("heapq.merge", "merge") and not any(isinstance(a_, ast.Starred) for a_ in n.args):
                    srcs = [val(a_) for a_ in n.args]
                    kf, rev = order(n, [x for s_ in srcs if isinstance(s_, (list, tuple)) for x in s_])
                    import heapq
                    return bound(_Iter(srcs, combine=lambda lists, kf=kf, rev=rev: list(heapq.merge(*lists, key=kf, reverse=rev))))
                if d == "sorted" and len(n.args) == 1 and not isinstance(n.args[0], ast.Starred):
                    items = _elements(val(n.args[0]))
                    kf, rev = order(n, items)
                    try:
                        return bound(sorted(items, key=kf, reverse=rev))
                    except TypeError as x:
                        raise CannotEval(f"{u(n)[:60]}: {x}")
                if d in ("list", "tuple") and plain and len(n.args) == 1:
                    v = val(n.args[0])
                    if isinstance(v, (_Iter, _Gen, list, tuple, dict, set, frozenset, range)):
                        return bound(_elements(v) if d == "list" else tuple(_elements(v)))
                if d == "dict.fromkeys" and plain and len(n.args) in (1, 2) and "dict" not in env2:
                    # the value is evaluated ONCE: every key is bound to the same object (a mutable value is shared by all keys)
                    try:
                        return bound(dict.fromkeys(_elements(val(n.args[0])), val(n.args[1]) if len(n.args) == 2 else None))
                    except TypeError as x:
                        raise CannotEval(f"{u(n)[:60]}: {x}")
                if d == "dict" and plain and len(n.args) == 1 and "dict" not in env2:
                    v = val(n.args[0])
                    try:
                        return bound(dict(v) if isinstance(v, dict) else dict(tuple(x) for x in _elements(v)))
                    except (TypeError, ValueError) as x:
                        raise CannotEval(f"{u(n)[:60]}: {x}")
                if d in ("list", "dict", "set") and plain and not n.args:
                    return bound({"list": list, "dict": dict, "set": set}[d]())
                if d in ("collections.defaultdict", "defaultdict") and plain and len(n.args) == 1 and dotted(n.args[0]) in ("list", "dict", "set", "int"):
                    import collections
                    return bound(collections.defaultdict({"list": list, "dict": dict, "set": set, "int": int}[dotted(n.args[0])]))
                if d == "enumerate" and len(n.args) == 1 and not isinstance(n.args[0], ast.Starred) and all(k.arg == "start" for k in n.keywords):
                    start = val(n.keywords[0].value) if n.keywords else 0
                    if not isinstance(start, int):
                        raise CannotEval(f"{u(n)[:60]}: start")
                    return bound([(start + i_, x) for i_, x in enumerate(_elements(val(n.args[0])))])
                if d == "zip" and plain and n.args:
                    return bound([tuple(x) for x in zip(*[_elements(val(a_)) for a_ in n.args])])
                if d == "range" and plain and 1 <= len(n.args) <= 3:
                    vs = [val(a_) for a_ in n.args]
                    if all(isinstance(x, int) and not isinstance(x, bool) for x in vs) and (len(vs) < 3 or vs[2] != 0):
                        return bound(list(range(*vs)))
                if d == "iter" and plain and len(n.args) == 1:
                    v = val(n.args[0])
                    return bound(v if isinstance(v, _Iter) else _Iter([v]))
                if d == "reversed" and plain and len(n.args) == 1:
                    return bound(_Iter([list(reversed(_elements(val(n.args[0]))))]))
                if d == "next" and plain and len(n.args) in (1, 2):
                    v = val(n.args[0])
                    if isinstance(v, _Iter):
                        items = v.take()
                        v.sources = [items[1:]]
                        if items:
                            return bound(items[0])
                        if len(n.args) == 2:
                            return bound(val(n.args[1]))
                        raise CannotEval(f"{u(n)[:60]}: StopIteration")
                if d in ("itertools.groupby", "groupby") and len(n.args) >= 1 and not isinstance(n.args[0], ast.Starred):
                    items = _elements(val(n.args[0]))
                    kn = source.arg_of(n, 1, "key")
                    f_ = M.fn_value(kn, env2) if kn is not None and not (isinstance(kn, ast.Constant) and kn.value is None) else None
                    return bound([(k_, _Iter([list(g_)])) for k_, g_ in itertools.groupby(items, key=(lambda x: M.apply(f_, x)) if f_ is not None else None)])
                if d in ("max", "min") and len(n.args) >= 2 and not n.keywords:
                    return ast.Call(func=f, args=[ast.List(elts=list(n.args), ctx=ast.Load())], keywords=[])
                if d in ("math.floor", "math.ceil", "math.trunc") and len(n.args) == 1 and not n.keywords:
                    import math
                    v = val(n.args[0])
                    if isinstance(v, (int, float)) and not isinstance(v, bool):
                        return bound(getattr(math, f.attr)(v))
                for k in n.keywords:
                    if k.arg == "key":
                        k.value = self.visit(k.value)
                return n

            def visit_BinOp(self, n):
                self.generic_visit(n)
                if isinstance(n.op, ast.Mult) and (isinstance(n.left, (ast.List, ast.Tuple)) or isinstance(n.right, (ast.List, ast.Tuple))):
                    # sequence repetition: the elements are evaluated once, the result holds the SAME objects n times
                    a_, b_ = val(n.left), val(n.right)
                    if (isinstance(a_, (list, tuple)) and isinstance(b_, int) and not isinstance(b_, bool)) or (isinstance(b_, (list, tuple)) and isinstance(a_, int) and not isinstance(a_, bool)):
                        return bound(a_ * b_)
                return n

            def visit_Subscript(self, n):
                self.generic_visit(n)
                if isinstance(n.ctx, ast.Load) and isinstance(n.slice, ast.Slice):
                    recv = val(n.value)
                    lo, hi, st = [None if x is None else val(x) for x in (n.slice.lower, n.slice.upper, n.slice.step)]
                    if isinstance(recv, (list, tuple, str)) and all(x is None or (isinstance(x, int) and not isinstance(x, bool)) for x in (lo, hi, st)) and st != 0:
                        return bound(recv[lo:hi:st])
                    raise CannotEval(f"slice {u(n)[:60]}")
                return n

            def visit_Attribute(self, n):
                self.generic_visit(n)
                if isinstance(n.ctx, ast.Load):
                    try:
                        recv = val(n.value)
                    except CannotEval:
                        return n
                    if isinstance(recv, Record) and n.attr not in recv.fields:
                        Mx = M.model_of(recv, M)
                        if n.attr in Mx.props:
                            return bound(Mx.call(recv, n.attr))
                return n

        try:
            return minieval.ev(T().visit(source.clone(e)), env2)
        finally:
            for n in ast.walk(e):
                if isinstance(n, ast.NamedExpr) and isinstance(n.target, ast.Name) and n.target.id in env2:
                    env[n.target.id] = env2[n.target.id]

    def _store(self, t, val, env):
        if isinstance(t, ast.Name):
            env[t.id] = val
        elif isinstance(t, ast.Attribute):
            recv = self.ev(t.value, env)
            if not isinstance(recv, Record):
                raise CannotEval(f"store to {u(t)}")
            recv.fields[t.attr] = val
        elif isinstance(t, ast.Subscript) and not isinstance(t.slice, ast.Slice):
            recv = self.ev(t.value, env)
            if not isinstance(recv, (dict, list)):
                raise CannotEval(f"store to {u(t)}")
            try:
                recv[self.ev(t.slice, env)] = val
            except (IndexError, TypeError) as x:
                raise CannotEval(f"store to {u(t)}: {type(x).__name__}")
        elif isinstance(t, (ast.Tuple, ast.List)) and isinstance(val, (list, tuple)) and len(val) == len(t.elts) and not any(isinstance(x, ast.Starred) for x in t.elts):
            for x, v in zip(t.elts, val):
                self._store(x, v, env)
        else:
            raise CannotEval(f"store to {u(t)}")

    def run(self, stmts, env):
        for s in stmts:
            if isinstance(s, ast.Expr):
                v = s.value
                if isinstance(v, ast.Constant) or is_logging_call(v):
                    continue
                if isinstance(v, (ast.Yield, ast.YieldFrom)):
                    if not isinstance(env.get(_YIELDED), list):
                        raise CannotEval("yield outside an interpreted generator function")
                    if isinstance(v, ast.Yield):
                        env[_YIELDED].append(None if v.value is None else self.ev(v.value, env))
                    else:
                        env[_YIELDED].extend(_elements(self.ev(v.value, env)))
                    continue
                if isinstance(v, ast.Call) and isinstance(v.func, ast.Attribute) and v.func.attr in ("append", "clear", "extend") and not v.keywords:
                    recv = self.ev(v.func.value, env)
                    if isinstance(recv, list):
                        args = [self.ev(a_, env) for a_ in v.args]
                        getattr(recv, v.func.attr)(*[_elements(a_) if v.func.attr == "extend" else a_ for a_ in args])
                        continue
                if isinstance(v, ast.Call) and isinstance(v.func, ast.Attribute) and v.func.attr == "sort" and not v.args:
                    recv = self.ev(v.func.value, env)
                    if isinstance(recv, list):
                        # the same order arguments as sorted(): evaluate `sorted(<list>, ...)` and store the result in place
                        env_ = dict(env)
                        env_["_sorted_in_place_"] = recv
                        recv[:] = self.ev(ast.Call(func=ast.Name(id="sorted", ctx=ast.Load()), args=[ast.Name(id="_sorted_in_place_", ctx=ast.Load())], keywords=v.keywords), env_)
                        continue
                self.ev(v, env)
            elif isinstance(s, ast.Assign):
                val = self.ev(s.value, env)
                for t in s.targets:
                    self._store(t, val, env)
            elif isinstance(s, ast.AugAssign):
                load = ast.parse(u(s.target), mode="eval").body
                self._store(s.target, self.ev(ast.BinOp(left=load, op=s.op, right=s.value), env), env)
            elif isinstance(s, ast.If):
                self.run(s.body if self.ev(s.test, env) else s.orelse, env)
            elif isinstance(s, ast.For):
                broke = False
                for item in _elements(self.ev(s.iter, env)):
                    self._store(s.target, item, env)
                    try:
                        self.run(s.body, env)
                    except _Jump as j:
                        if j.kind == "break":
                            broke = True
                            break
                if not broke:
                    self.run(s.orelse, env)
            elif isinstance(s, (ast.Break, ast.Continue)):
                raise _Jump("break" if isinstance(s, ast.Break) else "continue")
            elif isinstance(s, source.FUNC_TYPES) and isinstance(s, ast.FunctionDef) and not s.decorator_list:
                env[s.name] = _Fn(s, env)
            elif isinstance(s, ast.Delete) and all(isinstance(t, ast.Subscript) and not isinstance(t.slice, ast.Slice) for t in s.targets):
                for t in s.targets:
                    recv = self.ev(t.value, env)
                    if not isinstance(recv, (dict, list)):
                        raise CannotEval(f"del {u(t)}")
                    try:
                        del recv[self.ev(t.slice, env)]
                    except (KeyError, IndexError, TypeError) as x:
                        raise CannotEval(f"del {u(t)}: {type(x).__name__}")
            elif isinstance(s, ast.Return):
                raise _Ret(None if s.value is None else self.ev(s.value, env))
            elif isinstance(s, ast.Pass):
                pass
            else:
                raise CannotEval(f"statement {type(s).__name__} at line {getattr(s, 'lineno', '?')}")


_NOTHING = object()
_YIELDED = "<yielded>"


def _decide(chk, rid, text, node, fn, key=None):
    """record an obligation that is decided on values: fn() -> (ok, detail); an extracted piece that cannot be interpreted is 'not recognised' (exit 2), never a verdict."""
    try:
        ok, detail = fn()
    except (CannotEval, RecursionError, ZeroDivisionError, TypeError, ValueError, KeyError, AttributeError) as x:
        chk.unknown(rid, f"{text}: cannot be decided on values ({type(x).__name__}: {str(x)[:100]})", node)
        return None
    return chk.ob(rid, text, ok, node, detail, key=key)


# ---------------------------------------------------------------------------------------------------------------------------------------
# roles of the calculator


def _state_expr(e, A):
    """(kind, key expression) if e reads the per-task entry of self.<A>: self.A[k] -> item, self.A.get(k) -> get, self.A.setdefault(k, x) -> setdefault; else None."""
    if isinstance(e, ast.NamedExpr):
        e = e.value
    if isinstance(e, ast.Subscript) and is_self_attr(e.value, A) and not isinstance(e.slice, ast.Slice):
        return "item", e.slice
    if isinstance(e, ast.Call) and isinstance(e.func, ast.Attribute) and is_self_attr(e.func.value, A) and e.args and not e.keywords:
        if e.func.attr == "get" and (len(e.args) == 1 or (len(e.args) == 2 and source.is_const(e.args[1]) and e.args[1].value is None)):
            return "get", e.args[0]
        if e.func.attr == "setdefault" and len(e.args) == 2:
            return "setdefault", e.args[0]
    return None


def _state_roles(drv, tm):
    """(A, TS, ctor call, function holding it): the class whose instances a method of the calculator stores under a key of self.<A>."""
    classes = {}
    for c in drv.classes():
        classes.setdefault(c.name, c)
    found = []
    for f in tm.values():
        fdefs = local_defs(f)

        def ctor_of(v):
            if isinstance(v, ast.Name) and v.id in fdefs:
                v = fdefs[v.id]
            return v if isinstance(v, ast.Call) and last_attr(v.func) in classes else None

        for n in walk_body(f):
            if isinstance(n, ast.Assign) and ctor_of(n.value) is not None:
                for t in n.targets:
                    if isinstance(t, ast.Subscript) and is_self_attr(t.value):
                        found.append((t.value.attr, classes[last_attr(ctor_of(n.value).func)], ctor_of(n.value), f))
            elif isinstance(n, ast.Call) and isinstance(n.func, ast.Attribute) and n.func.attr == "setdefault" and is_self_attr(n.func.value) and len(n.args) == 2 and ctor_of(n.args[1]) is not None:
                found.append((n.func.value.attr, classes[last_attr(ctor_of(n.args[1]).func)], ctor_of(n.args[1]), f))
    if len({(a_, c.name) for a_, c, _, _ in found}) != 1 or len(found) != 1:
        raise AnchorMissing("the one place where ThroughputCalculator stores a new per-task state object under the task key (self.<attr>[task] = <State>(...))")
    return found[0]


def _denotes_state(e, scope, A):
    """e denotes the task's state object in `scope`: self.A[k] / self.A.get(k) / self.A.setdefault(k, ..) or a local / walrus bound to one of those."""
    if _state_expr(e, A) is not None:
        return True
    if isinstance(e, ast.Name):
        vals = [n.value for n in ast.walk(scope) if isinstance(n, ast.NamedExpr) and isinstance(n.target, ast.Name) and n.target.id == e.id]
        vals += [n.value for n in walk_body(scope) if isinstance(n, ast.Assign) and any(isinstance(t, ast.Name) and t.id == e.id for t in n.targets)]
        return bool(vals) and all(_state_expr(v, A) is not None for v in vals)
    return False


def _returns_state(H, v, A):
    """v is a call of a helper every return of which hands out the task's entry of self.<A>."""
    fn = H.callee(v) if isinstance(v, ast.Call) else None
    if fn is None:
        return False
    rets = [n for n in walk_body(fn) if isinstance(n, ast.Return)]

    def binds(n):
        return _state_expr(n.value, A) is not None or any(isinstance(t, ast.Subscript) and is_self_attr(t.value, A) for t in n.targets)

    def state_value(x):
        if x is None:
            return False
        if _state_expr(x, A) is not None:
            return True
        if isinstance(x, ast.Name):
            asg = [n for n in walk_body(fn) if isinstance(n, ast.Assign) and any(isinstance(t, ast.Name) and t.id == x.id for t in n.targets)]
            return bool(asg) and all(binds(n) for n in asg)
        return False

    return bool(rets) and all(state_value(r.value) for r in rets)


def _attrs_from_params(fn):
    """{attribute of self: parameter} for the attributes a method assigns a value that depends on one of its parameters."""
    ps = set(params_of(fn)[1:])
    defs = local_defs(fn)
    out = {}
    for n in walk_body(fn):
        if isinstance(n, (ast.Assign, ast.AugAssign)):
            tg = n.targets if isinstance(n, ast.Assign) else [n.target]
            used = [x.id for x in ast.walk(source.inline_node(n.value, defs)) if isinstance(x, ast.Name) and x.id in ps]
            if used:
                for t in tg:
                    if is_self_attr(t):
                        out[t.attr] = used[0]
    return out


def _self_reads(fn):
    return {x.attr for x in ast.walk(fn) if is_self_attr(x) and isinstance(x.ctx, ast.Load)}


def _state_closure(sm, fn):
    """methods of the per-task state class reachable from method fn through self.m(...) calls (fn included): an extracted `add_sample` IS the updates it delegates to."""
    seen, todo = [], [fn]
    while todo:
        f = todo.pop()
        if any(f is x for x in seen):
            continue
        seen.append(f)
        for n in walk_body(f):
            if isinstance(n, ast.Call) and is_self_attr(n.func) and n.func.attr in sm:
                todo.append(sm[n.func.attr])
    return seen


def _self_writes(fn, attr):
    """assignments (plain / augmented) of self.<attr> in method fn."""
    return [n for n in walk_body(fn) if isinstance(n, (ast.Assign, ast.AugAssign)) and any(is_self_attr(x, attr) and isinstance(x.ctx, ast.Store) for t in (n.targets if isinstance(n, ast.Assign) else [n.target])
                                                                                         for x in ast.walk(t))]


def _field_flow(sm, fn, p, whole, field, depth=0):
    """[(method, attribute)]: the attributes of self that receive a value computed from <sample>.<field> when state method `fn` is called with the sample itself (whole) or with the
    value of that field as its parameter p - assigned by fn, or by a state method fn hands the sample / the value on to (self.m(...)): roles follow the data, not the method that
    happens to be called from the calculator."""
    defs = local_defs(fn)

    def carries(e):
        r = source.inline_node(e, defs)
        if whole:
            return any(isinstance(x, ast.Attribute) and x.attr == field and isinstance(x.value, ast.Name) and x.value.id == p for x in ast.walk(r))
        return any(isinstance(x, ast.Name) and x.id == p for x in ast.walk(r))

    out = []
    for n in walk_body(fn):
        if isinstance(n, (ast.Assign, ast.AugAssign)) and carries(n.value):
            for t in (n.targets if isinstance(n, ast.Assign) else [n.target]):
                if is_self_attr(t):
                    out.append((fn, t.attr))
        elif isinstance(n, ast.Call) and is_self_attr(n.func) and n.func.attr in sm and sm[n.func.attr] is not fn and depth < 4:
            m2 = sm[n.func.attr]
            for p2, a_ in source.bind_args(n, m2).items():
                r = source.inline_node(a_, defs)
                if whole and isinstance(r, ast.Name) and r.id == p:
                    out += _field_flow(sm, m2, p2, True, field, depth + 1)
                elif carries(a_):
                    out += _field_flow(sm, m2, p2, False, field, depth + 1)
    return out


class _Task(Record):
    """stands for a task: hashable (by identity), has a name, prints as its name."""

    def __repr__(self):
        return str(self.fields.get("name"))


class _Emit:
    """one place where a value (abs time, rel time, sample type, throughput, unit) is produced: `node` is the append / comprehension in the analysed function, `tup` the 5-tuple
    as a function of that function's names (locals and expression helpers resolved)."""

    def __init__(self, node, tup):
        self.node = node
        self.tup = tup
        self.elts = tup.elts


def _emits(H, func, keep=()):
    out = []
    for n in walk_body(func):
        cand = None
        if isinstance(n, ast.Call) and isinstance(n.func, ast.Attribute) and n.func.attr == "append" and len(n.args) == 1 and not n.keywords:
            cand = n.args[0]
        elif isinstance(n, ast.AugAssign) and isinstance(n.op, ast.Add) and isinstance(n.value, (ast.List, ast.Tuple)) and len(n.value.elts) == 1:
            cand = n.value.elts[0]
        elif isinstance(n, (ast.ListComp, ast.GeneratorExp)):
            cand = n.elt
        elif isinstance(n, ast.Yield) and n.value is not None:
            # the routine is a generator: every value it yields is one emitted value (the caller drains it)
            cand = n.value
        if cand is None:
            continue
        t = H.resolve(cand, func, keep)
        for _ in range(3):
            # locals bound more than once (e.g. a unit string built per branch): the definition that reaches this statement
            m = {}
            for x in ast.walk(t):
                if isinstance(x, ast.Name) and isinstance(x.ctx, ast.Load) and x.id not in keep and x.id not in m:
                    d = _reaching(func, x.id, n)
                    if d is not None:
                        m[x.id] = d
            if not m:
                break
            t = H.resolve(_subst(t, m), func, keep)
        if isinstance(t, ast.Tuple) and len(t.elts) == 5:
            out.append(_Emit(n, t))
    return out


def _sample(**over):
    f = dict(absolute_time=12.0, relative_time=2.0, time_period=0.5, total_ops=5, total_ops_unit="docs", sample_type=1, throughput=None, task="t", client_id=0,
             request_start=11.5, task_start=10.0, latency=0.5, service_time=0.5, processing_time=0.5, percent_completed=None, operation_name="op", operation_type="bulk",
             request_meta_data={}, dependent_timings=[])
    f.update(over)
    return Record(**f)


def _as_fstring(e):
    """fresh copy of e in which `"..%s.." % x`, `"..%s.." % (x, y)` and `"..{}..".format(x)` are spelled as the equivalent f-string (only plain %s / {} placeholders)."""

    def join(parts, args):
        vals = []
        for i, part in enumerate(parts):
            if part:
                vals.append(ast.Constant(value=part))
            if i < len(args):
                vals.append(ast.FormattedValue(value=args[i], conversion=-1, format_spec=None))
        return ast.JoinedStr(values=vals)

    class T(ast.NodeTransformer):
        def visit_BinOp(self, n):
            self.generic_visit(n)
            if isinstance(n.op, ast.Mod) and isinstance(n.left, ast.Constant) and isinstance(n.left.value, str):
                args = list(n.right.elts) if isinstance(n.right, ast.Tuple) else [n.right]
                parts = n.left.value.split("%s")
                if len(parts) == len(args) + 1 and "%" not in "".join(parts):
                    return join(parts, args)
            return n

        def visit_Call(self, n):
            self.generic_visit(n)
            if isinstance(n.func, ast.Attribute) and n.func.attr == "format" and isinstance(n.func.value, ast.Constant) and isinstance(n.func.value.value, str) and not n.keywords:
                parts = n.func.value.value.split("{}")
                if len(parts) == len(n.args) + 1 and "{" not in "".join(parts):
                    return join(parts, list(n.args))
            return n

    return T().visit(source.clone(e))


def _unit_value(unit, ts_text, others):
    """the unit string an emit site builds when the sample that timestamps the value counts 'docs' and every other sample in sight counts 'ops'; falls back to the shape
    '<anything>/s' when the unit does not come from a sample at all. Returns (value or None, how)."""
    unit = _as_fstring(unit)

    class T(ast.NodeTransformer):
        def generic_visit(self, n):
            if ts_text is not None and isinstance(n, ast.expr) and u(n) == ts_text:
                return ast.Name(id="_ts_", ctx=ast.Load())
            return super().generic_visit(n)

    e = T().visit(source.clone(unit))
    env = dict(others)
    env["_ts_"] = _sample(total_ops_unit="docs")
    try:
        return minieval.ev(e, env), "value"
    except CannotEval:
        pass
    # shape: every non-constant part stands for the unit
    class S(ast.NodeTransformer):
        def visit_FormattedValue(self, n):
            return ast.FormattedValue(value=ast.Constant(value="docs"), conversion=n.conversion, format_spec=n.format_spec)

        def visit_BinOp(self, n):
            if isinstance(n.op, ast.Add):
                l_, r_ = n.left, n.right
                if isinstance(r_, ast.Constant) and isinstance(r_.value, str) and not isinstance(l_, (ast.Constant, ast.BinOp, ast.JoinedStr)):
                    return ast.BinOp(left=ast.Constant(value="docs"), op=n.op, right=r_)
            return self.generic_visit(n)

    try:
        return minieval.ev(S().visit(source.clone(unit)), {}), "shape"
    except CannotEval:
        return None, "?"


# ---------------------------------------------------------------------------------------------------------------------------------------
# shared with C07 (O7.5)


_LAZY_MERGE = ("itertools.chain", "chain", "heapq.merge", "merge")  # several sources read lazily into one single-use iterator
_LAZY = _LAZY_MERGE + ("iter", "map", "filter", "zip", "reversed")


def lazy_batch_rule(chk, rid, drv, decided=False):
    """ThroughputCalculator.calculate merges new and carried-over samples with a LAZY, single-use chain. Two necessary conditions (shared with C07: throughput is computed from
    all samples): (1) the only consumer of that iterator is the materialising sort / list; (2) between creating the chain and materialising it none of its sources is mutated
    (a `.clear()` on the carried-over list empties what the chain has not read yet)."""
    TC = drv.cls("ThroughputCalculator")
    calc = drv.methods(TC).get("calculate")
    if calc is None:
        raise AnchorMissing("ThroughputCalculator.calculate")
    g = cfg_of(calc)
    tcm = drv.methods(TC)

    def lazy_call(c):
        """a call that yields a single-use iterator: itertools.chain & co, or a helper of the calculator that returns one (extracted merge)."""
        if not isinstance(c, ast.Call):
            return False
        if dotted(c.func) in _LAZY:
            return True
        h = tcm.get(c.func.attr) if isinstance(c.func, ast.Attribute) and dotted(c.func.value) in ("self", "cls", TC.name) else None
        return h is not None and h is not calc and any(isinstance(r, ast.Return) and isinstance(r.value, ast.Call) and dotted(r.value.func) in _LAZY_MERGE for r in walk_body(h))

    lazy_defs = [n for n in walk_body(calc) if isinstance(n, ast.Assign) and isinstance(n.targets[0], ast.Name) and lazy_call(n.value)]
    for ld in lazy_defs:
        nm = ld.targets[0].id
        scope = source.enclosing(ld, (ast.For, ast.While)) or calc  # the binding lives for one iteration of the per-task loop
        inside = {id(x) for x in ast.walk(ld)}
        uses = [x for x in ast.walk(scope) if isinstance(x, ast.Name) and x.id == nm and isinstance(x.ctx, ast.Load) and id(x) not in inside and x.lineno >= ld.lineno]
        bad = [x for x in uses if not (isinstance(source.parent(x), ast.Call) and dotted(source.parent(x).func) in ("sorted", "list", "tuple") and source.parent(x).args and source.parent(x).args[0] is x)]
        ok = len(uses) >= 1 and not bad and len(uses) == 1
        chk.ob(rid, f"the lazily merged batch `{nm}` is consumed exactly once, by the materialising sort", ok, bad[0] if bad else (uses[0] if uses else ld),
               "" if ok else f"{len(uses)} read(s); `{short(source.enclosing_stmt(bad[0]), 60) if bad else ''}` consumes elements of the single-use iterator before / besides the sort: those samples are never counted",
               key=f"esrally/driver/driver.py:ThroughputCalculator.calculate:lazy-batch:{nm}")
        # sources of the chain and their aliases
        srcs = {u(a_) for a_ in ld.value.args}
        for n in ast.walk(scope):
            if isinstance(n, ast.Assign) and len(n.targets) == 1 and isinstance(n.targets[0], ast.Name) and u(n.value) in srcs:
                srcs.add(n.targets[0].id)
        mats = [source.parent(x) for x in uses if x not in bad]
        muts = []
        for n in ast.walk(scope):
            hit = None
            if isinstance(n, ast.Call) and isinstance(n.func, ast.Attribute) and n.func.attr in ("clear", "pop", "remove", "sort", "reverse", "insert") and u(n.func.value) in srcs:
                hit = n
            elif isinstance(n, ast.Delete) and any(u(t.value if isinstance(t, ast.Subscript) else t) in srcs for t in n.targets):
                hit = n
            elif isinstance(n, ast.Assign) and any(isinstance(t, ast.Subscript) and u(t.value) in srcs for t in n.targets):
                hit = n
            if hit is not None and mats:
                try:
                    between = g.path_exists(g.node_of(ld), g.node_of(hit), avoid=[g.node_of(m) for m in mats], edge_ok=g.normal_edge) and any(g.path_exists(g.node_of(hit), g.node_of(m), edge_ok=g.normal_edge) for m in mats)
                except KeyError:
                    between = False
                if between and g.node_of(hit) is not g.node_of(ld):
                    muts.append(hit)
        chk.ob(rid, f"no source of the lazy batch `{nm}` is mutated before it is materialised", not muts, muts[0] if muts else ld,
               "" if not muts else f"`{short(source.enclosing_stmt(muts[0]), 60)}` runs while the chain has not been read yet: the carried-over samples vanish from this round's throughput",
               key=f"esrally/driver/driver.py:ThroughputCalculator.calculate:lazy-batch-sources:{nm}")
    merges = [n for n in walk_body(calc) if lazy_call(n) and dotted(n.func) not in ("iter", "map", "filter", "zip", "reversed")]
    if lazy_defs or merges:
        chk.ob(rid, "merged batch located", True, calc, f"lazy locals: {sorted(n.targets[0].id for n in lazy_defs)}")
    else:
        # no lazy iterator in sight (eager concatenation, or a helper): there is nothing single-use to protect - whether the batch is complete is the merge obligation's business
        eager = [n for n in walk_body(calc) if (isinstance(n, ast.BinOp) and isinstance(n.op, ast.Add) and any(isinstance(x, ast.Attribute) for x in (n.left, n.right)))
                 or (isinstance(n, (ast.List, ast.Tuple)) and any(isinstance(x, ast.Starred) for x in n.elts))]
        if eager:
            chk.ob(rid, "merged batch located", True, eager[0], "eager concatenation: no single-use iterator")
        elif decided:
            # the caller has decided on values that the batch handed to the per-task routine holds every new and every carried-over sample: whatever builds it, no single-use
            # iterator is bound to a name in calculate()
            chk.ob(rid, "merged batch located", True, calc, "no single-use iterator bound in calculate(); completeness of the batch decided on values")
        else:
            chk.unknown(rid, "no itertools.chain / eager concatenation of new and carried-over samples located in calculate()", calc)


# ---------------------------------------------------------------------------------------------------------------------------------------
# obligations added after the defect hunt (F23 repaired; F49, F50, F51 known findings)

_PRODUCER_ID = ("client_id", "worker_id")  # fields / parameters that name the producer of a sample (Sample.client_id, UpdateSamples.client_id == worker id, JoinPointReached.worker_id)
_TAKE_ONE = ("get_nowait", "popleft", "pop", "get")


def _self_root(e):
    """the `self.<attr>` node an attribute / subscript / call chain hangs off, or None."""
    n = e
    while isinstance(n, (ast.Attribute, ast.Subscript, ast.Call)):
        if is_self_attr(n):
            return n
        n = n.func if isinstance(n, ast.Call) else n.value
    return None


def _takes_one(x):
    return isinstance(x, ast.Call) and (last_attr(x.func) in ("get_nowait", "popleft") or (last_attr(x.func) == "pop" and not any(isinstance(a_, ast.Constant) and isinstance(a_.value, str) for a_ in x.args)))


def _bulk_clear(x):
    """`self.<...>.clear()`: empties a container of the object in one go."""
    return isinstance(x, ast.Call) and isinstance(x.func, ast.Attribute) and x.func.attr == "clear" and not x.args and _self_root(x.func.value) is not None


def _draining_getters(drv):
    """{property name: getter} for the properties in the module whose getter EMPTIES a container of the object (element by element: get_nowait / popleft / pop, or in bulk: clear):
    reading such a property consumes what it returns."""
    out = {}
    for c in drv.classes():
        for f in c.body:
            if isinstance(f, source.FUNC_TYPES) and any(dotted(d) == "property" for d in f.decorator_list) and any(_takes_one(x) or _bulk_clear(x) for x in ast.walk(f)):
                out[f.name] = f
    return out


def sampler_handover_rule(chk, drv):
    """F23. A worker's sampler object is the only place where the samples of the running load generator live until they are shipped. Overwriting the attribute that holds it
    (a fresh Sampler for the next round of an over-committed parallel element, or None at a join point) drops whatever the old one still holds: those operations are counted ZERO
    times by every throughput value. Necessary: on every path to such an overwrite the sampler has been drained, and nothing that lets a load generator add samples (starting one,
    blocking on one) lies between the drain and the overwrite. The drain itself hands out every element it removes (the load generator adds samples concurrently: a copy followed by
    a bulk clear() drops what arrived in between)."""
    chk.rule("O6.6", "a worker never drops a sampler that may still hold samples: every overwrite of the attribute holding the sampler (outside __init__) is preceded on every path by a "
             "drain (the method that ships <sampler>.<draining property> as UpdateSamples) with no executor activity (starting a load generator, blocking on its future) between "
             "the drain and the overwrite; the draining getter removes elements one at a time and returns each of them (no copy-then-clear)", 3,
             "a parallel element with fewer clients than tasks (several rounds between two join points): the load generator finishes between the periodic drain of the wake-up "
             "handler and its done() check; the samples added in that window are never shipped, their operations are counted zero times")
    W = drv.cls("Worker")
    wm = drv.methods(W)
    drv.cls("UpdateSamples")
    getters = _draining_getters(drv)
    dprops = set(getters)
    if not dprops:
        raise AnchorMissing("a draining property (getter empties a queue) in esrally/driver/driver.py")
    # role: drain methods of the worker and the attribute that holds the sampler
    drains = {}
    used_props = set()
    for name, f in wm.items():
        fdefs = local_defs(f)
        for c in walk_body(f):
            if not (isinstance(c, ast.Call) and last_attr(c.func) == "send"):
                continue
            for msg in c.args:
                if isinstance(msg, ast.Call) and last_attr(msg.func) == "UpdateSamples":
                    for a_ in list(msg.args) + [k.value for k in msg.keywords]:
                        for x in ast.walk(source.inline_node(a_, fdefs)):
                            if isinstance(x, ast.Attribute) and x.attr in dprops and is_self_attr(x.value):
                                drains[name] = x.value.attr
                                used_props.add(x.attr)
    attrs = sorted(set(drains.values()))
    if len(attrs) != 1:
        raise AnchorMissing("Worker method that ships self.<sampler>.<draining property> as UpdateSamples (exactly one sampler attribute)")
    chk.ob("O6.6", "drain method of the worker and the attribute holding the sampler located", True, W,
           f"drain method(s) {sorted(drains)} ship self.{attrs[0]}.<{'/'.join(sorted(dprops))}> as UpdateSamples")
    sattr = attrs[0]
    # the getter hands out what it removes
    for pn in sorted(used_props):
        gf = getters[pn]
        locks = [w for w in ast.walk(gf) if isinstance(w, (ast.With, ast.AsyncWith)) and any(("lock" in u(it.context_expr).lower() or "mutex" in u(it.context_expr).lower()) for it in w.items)]

        def locked(x):
            return any(w in list(source.ancestors(x)) for w in locks)

        bulk = [x for x in ast.walk(gf) if _bulk_clear(x) and not locked(x)]
        dropped = [x for x in ast.walk(gf) if _takes_one(x) and isinstance(source.parent(x), ast.Expr)]
        ok = not bulk and not dropped
        owner = source.enclosing_class(gf)
        chk.ob("O6.6", f"{owner.name if owner else '?'}.{pn}: the draining getter returns every element it removes", ok, (bulk or dropped or [gf])[0],
               "" if ok else (f"`{short(bulk[0], 50)}` empties the container in one go after it has been copied: a sample the load generator adds between the copy and the clear is "
                              "removed without ever being returned - its operations are counted zero times" if bulk else
                              f"`{short(dropped[0], 50)}` removes an element and discards it"),
               key=f"{_D}:{owner.name if owner else '?'}.{pn}:drain-returns-every-removed-element")
    # a worker method that calls a drain method on every normal path is a drain itself (extracted helper)
    grown = True
    while grown:
        grown = False
        for name, f in wm.items():
            if name in drains or name == "__init__":
                continue
            gf = cfg_of(f)
            dn = [gf.node_of(c) for c in walk_body(f) if isinstance(c, ast.Call) and is_self_attr(c.func) and c.func.attr in drains]
            if dn and gf.must_pass(gf.entry, dn, normal_only=True):
                drains[name] = sattr
                grown = True
    # role: the attribute(s) holding the future of the running load generator
    futures = {t.attr for f in wm.values() for n in walk_body(f) if isinstance(n, ast.Assign) and isinstance(n.value, ast.Call) and last_attr(n.value.func) == "submit"
               for t in n.targets if is_self_attr(t)}

    def activity(c):
        if not isinstance(c, ast.Call) or not isinstance(c.func, ast.Attribute):
            return False
        if c.func.attr == "submit":
            return True
        if c.func.attr in ("result", "exception") and is_self_attr(c.func.value) and c.func.value.attr in futures:
            to = source.arg_of(c, 0, "timeout")
            return not (to is not None and source.is_const(to, 0))  # a poll with timeout=0 does not wait for the load generator
        return False

    n_over = 0
    for name, f in wm.items():
        if name == "__init__":
            continue
        over = []
        for n in walk_body(f):
            tg = n.targets if isinstance(n, (ast.Assign, ast.Delete)) else ([n.target] if isinstance(n, (ast.AugAssign, ast.AnnAssign)) else [])
            if any(is_self_attr(x, sattr) and isinstance(x.ctx, (ast.Store, ast.Del)) for t in tg for x in ast.walk(t)):
                over.append(n)
        if not over:
            continue
        g = cfg_of(f)
        dnodes = [g.node_of(c) for c in walk_body(f) if isinstance(c, ast.Call) and is_self_attr(c.func) and c.func.attr in drains]
        anodes = [g.node_of(c) for c in walk_body(f) if activity(c)]
        for s in over:
            n_over += 1
            sn = g.node_of(s)
            dominated = bool(dnodes) and g.dominated_by_nodes(sn, dnodes)
            gap = [x for x in anodes if x is not sn and x not in dnodes and g.path_exists(x, sn, avoid=dnodes)]
            val = getattr(s, "value", None)
            kind = "dropped" if val is None or (source.is_const(val) and val.value is None) else "new-sampler"
            ok = dominated and not gap
            chk.ob("O6.6", f"Worker.{name}: the sampler is drained before it is {'replaced by a new one' if kind == 'new-sampler' else 'dropped'}", ok, s,
                   "" if ok else (f"`{short(s, 70)}` is reachable without a call of {sorted(drains)}: samples the finished load generator added after the last periodic drain are lost" if not dominated
                                  else f"`{short(gap[0].ast, 60)}` runs between the drain and `{short(s, 50)}`: the load generator can add samples that nobody ships"),
                   key=f"{_D}:Worker.{name}:drain-before-sampler-overwrite:{kind}")
    if n_over == 0:
        raise AnchorMissing(f"an assignment of self.{sattr} in a Worker method other than __init__")


def passthrough_decision_rule(chk, H, calc, ctt, mtt, tp_field, key_param):
    """F49. Whether a task's throughput is runner-supplied (pass-through) or calculated is a property of the TASK. A decision taken anew for every batch from the batch alone cannot be
    stable: a failed request of a pass-through task carries throughput None, so a batch that starts with (or consists of) such a sample is decided differently from the next one.
    Necessary: the decision consults state kept per task across calls (sticky) and does not hinge on one positional sample of the batch."""
    chk.rule("O6.7", "pass-through or calculate is decided per TASK and stays decided: the dispatch condition consults calculator state kept under the task key across calls and does not "
             "read the runner-supplied throughput of one positional sample of the current batch", 1,
             "a task whose runner supplies throughput (wait-for-transform) with one failed request (throughput None): cuts 3 / 2|1 emit a (None, 'ops/s') record, cut 1|2 discards the "
             "supplied 15000 and reports a calculated value, cut 1|1|1 inserts a calculated 0.0 - same samples, different results")
    calls = {f_.name: [c for c in walk_body(calc) if isinstance(c, ast.Call) and H.callee(c) is f_] for f_ in (ctt, mtt)}
    if not calls[ctt.name] or not calls[mtt.name]:
        raise AnchorMissing(f"calls of {ctt.name} and {mtt.name} in ThroughputCalculator.calculate")
    cdefs = local_defs(calc)
    c0 = calls[ctt.name][0]
    loop = source.enclosing(c0, (ast.For, ast.While))
    if loop is None or source.enclosing_func(loop) is not calc:
        loop = None
    key_arg = source.bind_args(c0, ctt).get(key_param)
    if key_arg is None:
        raise AnchorMissing(f"task key passed to {ctt.name}")
    key_txt = inline(key_arg, cdefs)
    facts = []
    for c in calls[ctt.name] + calls[mtt.name]:
        for f_ in pat.fact_nodes(c, stop=loop):
            if not any(f_ is x for x in facts):
                facts.append(f_)
    if not facts:
        raise AnchorMissing(f"the condition that selects {ctt.name} / {mtt.name} in calculate()")
    inl, seen_txt = [], set()
    for f_ in facts:
        e = source.inline_node(f_, cdefs)
        txt = {u(e), u(source.inline_node(negate(f_), cdefs))}  # the two arms see the same test, one of them negated
        if not (txt & seen_txt):
            inl.append(e)
        seen_txt |= txt
    state, positional = [], []
    for e in inl:
        for n in ast.walk(e):
            if isinstance(n, ast.Compare) and len(n.ops) == 1 and isinstance(n.ops[0], (ast.In, ast.NotIn)) and u(n.left) == key_txt and _self_root(n.comparators[0]) is not None:
                state.append(n)
            elif isinstance(n, ast.Subscript) and u(n.slice) == key_txt and _self_root(n.value) is not None:
                state.append(n)
            elif isinstance(n, ast.Call) and isinstance(n.func, ast.Attribute) and n.func.attr == "get" and n.args and u(n.args[0]) == key_txt and _self_root(n.func.value) is not None:
                state.append(n)
            if isinstance(n, ast.Attribute) and n.attr == tp_field:
                b = n.value
                one = (isinstance(b, ast.Subscript) and not isinstance(b.slice, ast.Slice) and
                       (isinstance(b.slice, ast.Constant) or (isinstance(b.slice, ast.UnaryOp) and isinstance(b.slice.operand, ast.Constant)))) or \
                      (isinstance(b, ast.Call) and dotted(b.func) in ("next", "min", "max"))
                if one:
                    positional.append(n)
    ok = bool(state) and not positional
    site = source.enclosing_stmt(facts[0]) if isinstance(facts[0], ast.AST) and source.parent(facts[0]) is not None else c0
    chk.ob("O6.7", "the pass-through decision is taken per task (sticky), not per batch from one positional sample", ok, site,
           "" if ok else ("decided by " + " / ".join(f"`{short(e, 90)}`" for e in inl) + ": " +
                          (f"reads `{u(positional[0])}` - whichever sample sorts first in THIS batch decides for the whole batch; " if positional else "") +
                          ("no state kept under the task key is consulted, so a later batch of the same task can be decided differently "
                           "(failed request of a pass-through task: throughput None)" if not state else "")),
           key=f"{_D}:ThroughputCalculator.calculate:pass-through-decision-per-task")


def unit_source_rule(chk, TC, ctt, emits, L, stats_var, batch, sampled):
    """F50. The unit of a calculated value names what the running count counts (docs, pages, ops ...). The sample that happens to close a bucket, or to be the last one of a batch, may be
    a failed request, which is recorded with weight 0 and the placeholder unit 'ops'. Necessary: the unit does not come from that sample but from a source that is independent of where the
    bucket / the batch ends (task-level state that not every sample overwrites)."""
    chk.rule("O6.8", "the unit of a calculated throughput value does not come from the sample that happens to close the bucket or to end the batch (a failed request carries the placeholder "
             "unit 'ops'): it is read from a batch-independent source, e.g. per-task state that is not overwritten by every sample", 2,
             "a bulk task (docs) with one failed request under on-error=continue: if that sample closes a bucket / ends a batch the value for N docs is stored as 'ops/s'; which record is "
             "hit, and the unit the summary report shows, depends on the cut")
    for e in emits:
        unit = e.elts[4]
        bad = [x for x in ast.walk(unit) if (isinstance(x, ast.Name) and x.id in sampled) or (isinstance(x, ast.Subscript) and isinstance(x.value, ast.Name) and x.value.id == batch)]
        # a unit kept in the per-task state must not be overwritten by every sample either (that is the last sample again)
        blind = []
        for s in ast.walk(unit):
            if isinstance(s, ast.Attribute) and isinstance(s.value, ast.Name) and s.value.id == stats_var:
                for n in ast.walk(TC):
                    if isinstance(n, ast.Assign) and any(isinstance(t, ast.Attribute) and t.attr == s.attr and isinstance(t.value, ast.Name) and t.value.id in ("self", stats_var) for t in n.targets):
                        fn = source.enclosing_func(n)
                        if fn is None or fn.name in ("__init__", "__post_init__"):
                            continue
                        if not guards(n, path_sensitive=True):
                            blind.append(n)
        where = "bucket-closing-sample" if L in list(source.ancestors(e.node)) else "last-sample-of-batch"
        ok = not bad and not blind
        chk.ob("O6.8", f"unit of the value emitted {'when a bucket closes' if where == 'bucket-closing-sample' else 'by the final-sample rule'} comes from a batch-independent source", ok, e.node,
               "" if ok else (f"`{u(unit)}`: `{u(bad[0])}` is the sample that {'closes the bucket' if where == 'bucket-closing-sample' else 'ends the batch'}; "
                              "a failed request there (weight 0, unit 'ops') relabels the task's docs/pages as 'ops/s'" if bad else
                              f"`{short(blind[0], 60)}` overwrites the per-task unit with every sample: the last sample decides again"),
               key=f"{_D}:ThroughputCalculator.calculate_task_throughput:unit-source:{where}")


def low_water_mark_rule(chk, drv, TS, TC, I):
    """F51. Workers flush on their own timers, so at any post-processing call the samples of different workers reach up to different times. A bucket may only be closed up to the time
    ALL producers of the task have reported (low-water mark); closing it at the newest sample of ANY client misses the operations of slower workers for good (the stored value stays,
    late samples older than the current interval never complete a bucket). Necessary: either the calculator distinguishes the producers of the samples it aggregates, or the driver holds raw
    samples back by a per-producer watermark before it hands them to post-processing. Neither is possible without reading the producer's identity on that path."""
    chk.rule("O6.9", "the time that closes a bucket is a low-water mark over the producers (clients / workers) of the task: the interval update inside the calculator depends on which "
             "client produced a sample, or the driver holds raw samples back by per-producer state before handing them to post-processing", 1,
             "two workers whose flushes reach the driver up to t=30 and t=25: the values for t in (25,30] miss the second worker's operations (18333 instead of 19967 docs/s) and stay; "
             "at the end of the task the late samples remain in `unprocessed` for good")
    sample_cls = drv.cls("Sample")
    init = drv.methods(sample_cls).get("__init__")
    fields = {t.attr for n in walk_body(init) if isinstance(n, ast.Assign) for t in n.targets if is_self_attr(t)} if init is not None else set()
    ids = [f_ for f_ in _PRODUCER_ID if f_ in fields]
    if not ids:
        raise AnchorMissing("producer identity field (client_id) of Sample")
    writers = [n for n in ast.walk(TS) if isinstance(n, (ast.Assign, ast.AugAssign)) and any(is_self_attr(t, I) for t in (n.targets if isinstance(n, ast.Assign) else [n.target]))
               and source.enclosing_func(n) is not None and source.enclosing_func(n).name not in ("__init__", "__post_init__")]
    if not writers:
        raise AnchorMissing("the TaskStats method that advances the interval")

    def in_logging(x):
        return any(is_logging_call(a_) for a_ in source.ancestors(x))

    def id_reads(root):
        return [x for x in ast.walk(root) if isinstance(x, ast.Attribute) and isinstance(x.ctx, ast.Load) and x.attr in _PRODUCER_ID and not is_self_attr(x) and not in_logging(x)]

    # (a) inside the calculator
    in_calc = id_reads(TC) + (id_reads(TS) if TS not in list(ast.walk(TC)) else [])
    # (b) upstream: the driver method(s) that hand the received raw samples to the post-processor
    pp_classes = {source.enclosing_class(n).name for n in ast.walk(drv.tree) if isinstance(n, ast.Assign) and isinstance(n.value, ast.Call) and last_attr(n.value.func) == TC.name
                  and any(is_self_attr(t) for t in n.targets) and source.enclosing_class(n) is not None}
    holders = {}
    for n in ast.walk(drv.tree):
        if isinstance(n, ast.Assign) and isinstance(n.value, ast.Call) and last_attr(n.value.func) in pp_classes and source.enclosing_class(n) is not None:
            for t in n.targets:
                if is_self_attr(t):
                    holders.setdefault(source.enclosing_class(n), set()).add(t.attr)
    if not holders:
        raise AnchorMissing("the attribute holding the sample post-processor (owner of the ThroughputCalculator)")
    held_back = []
    n_hand = 0
    for cls_, hattrs in holders.items():
        cm = drv.methods(cls_)
        # per-producer state of that class: attributes stored under a key that is a producer identity
        keyed = set()
        for n in ast.walk(cls_):
            if isinstance(n, ast.Subscript) and isinstance(n.ctx, ast.Store) and is_self_attr(n.value):
                if any((isinstance(x, ast.Attribute) and x.attr in _PRODUCER_ID) or (isinstance(x, ast.Name) and x.id in _PRODUCER_ID) for x in ast.walk(n.slice)):
                    keyed.add(n.value.attr)
        for name, f in cm.items():
            if not any(isinstance(c, ast.Call) and is_self_attr(c.func) and c.func.attr in hattrs for c in walk_body(f)):
                continue
            n_hand += 1
            todo, seen = [f], set()
            while todo:
                h = todo.pop()
                if h.name in seen or len(seen) > 8:
                    continue
                seen.add(h.name)
                held_back += id_reads(h)
                held_back += [x for x in ast.walk(h) if is_self_attr(x) and isinstance(x.ctx, ast.Load) and x.attr in keyed and not in_logging(x)]
                todo += [cm[c.func.attr] for c in walk_body(h) if isinstance(c, ast.Call) and is_self_attr(c.func) and c.func.attr in cm]
    if n_hand == 0:
        raise AnchorMissing("the driver method that hands raw samples to the sample post-processor")
    ok = bool(in_calc) or bool(held_back)
    w = writers[0]
    fn = source.enclosing_func(w)
    chk.ob("O6.9", "bucket-closing time is a low-water mark over the task's producers", ok, w,
           (f"producer identity consulted: `{short(source.enclosing_stmt((in_calc or held_back)[0]), 70)}`" if ok else
            f"`{short(w, 70)}` advances with the newest sample of ANY client: neither ThroughputCalculator nor the hand-over of raw samples to post-processing reads "
            f"{'/'.join(_PRODUCER_ID)} or per-producer state, so a bucket is closed before slower workers' samples for that time span have arrived"),
           key=f"{_D}:ThroughputCalculator.TaskStats.update_interval:bucket-closing-time-low-water-mark")


def throughput_records_rule(chk, repo, drv):
    """What the property observes are the throughput RECORDS in the metrics store. The calculator returns, per task, values (absolute time, relative time, sample type, throughput,
    unit); the sample post-processor writes them to the store. Necessary: every returned value is written exactly once, and the record carries that value's OWN five components and
    the task it was returned for. A record that takes its sample type (or time, unit, value) from anything else in sight - a raw sample of the batch, another value, a constant -
    reports successive values that go back to warm-up / a normal-phase task without a normal value / a changed runner-supplied throughput although the calculator was right.
    Decided on VALUES: the post-processor's entry point is evaluated (C07's evaluator of parsed source, nothing of the repository runs) on a batch of raw samples of two tasks whose
    fields are pairwise distinct, with the calculator replaced by a stub that returns three values - all components distinct from each other and from every field of a raw sample,
    one value 0.0 (a runner may supply it), sample types rising within a task - and the records written to the store are compared with those values."""
    chk.rule("O6.10", "every value the throughput calculator returns is written to the metrics store exactly once, as a record that carries that value's own absolute time, relative time, "
             "sample type, throughput and unit and the task it was returned for - never a component of a raw sample of the batch, of another value, or a constant", 7,
             "a batch whose samples do not all have the same type (parallel tasks with different warm-up, the batch with a task's warm-up -> normal switch), a runner-supplied throughput "
             "of 0: the stored values go back to warm-up, a task in its normal phase gets no normal value, or the stored number is not the one supplied")
    try:
        from rules import C07 as ev7  # the evaluator of parsed source lives there (imported lazily: C07 imports this module)
        for need in ("_Interp", "_O", "_T", "_Cls", "_explore", "_rep_samples", "_require_loops_modelled", "_contains_term", "_same", "_Undecided", "_Need"):
            getattr(ev7, need)
    except (ImportError, AttributeError) as x:
        chk.unknown("O6.10", f"the evaluator of rules/C07 is not available ({type(x).__name__}: {x})", drv.cls("SamplePostprocessor"))
        return

    SP = drv.cls("SamplePostprocessor")
    spc = drv.methods(SP).get("__call__")
    if spc is None:
        raise AnchorMissing("SamplePostprocessor.__call__")
    try:
        met = repo.module("esrally/metrics.py")
        store_methods = met.methods(met.cls("MetricsStore"))
    except AnchorMissing:
        store_methods = {}
    O_, T_ = ev7._O, ev7._T
    store = T_("global", "store")
    comp_names = ("absolute time", "relative time", "sample type", "throughput", "unit")

    def make(oracle):
        it = ev7._Interp([drv], oracle)
        it.opaque = {"ThroughputCalculator"}
        raw = ev7._rep_samples(5)  # tasks task-0 / task-1 alternate; the LAST raw sample belongs to task-0
        t0_, t1_ = raw[0].f["task"], raw[1].f["task"]
        agg = {t0_: [(7001.0, 71.0, "type-of-value-0 (warm-up)", 123.25, "docs/s"), (7002.0, 72.0, "type-of-value-1 (normal)", 456.5, "pages/s")],
               t1_: [(7003.0, 73.0, "type-of-value-2 (normal)", 0.0, "ops/s")]}
        asked = []

        def model(path, args, kwargs):
            if path.split(".")[0] == "ThroughputCalculator" and any(isinstance(a_, list) and a_ and all(any(x is s_ for s_ in raw) for x in a_) for a_ in list(args) + list(kwargs.values())):
                asked.append(path)
                return agg
            return NotImplemented

        it.model = model

        def go():
            o = it.call(ev7._Cls(SP, drv), [], dict(metrics_store=store, downsample_factor=1, track_meta_data={"track-meta": 1}, challenge_meta_data={"challenge-meta": 1}), SP)
            it.effects.clear()
            it.call(o, [raw], {}, SP)
            return raw, agg, asked

        return it, go

    try:
        runs = ev7._explore(make)
        for it, (raw, agg, asked) in runs:
            if len(asked) != 1:
                raise ev7._Undecided(f"{len(asked)} call(s) of the throughput calculator receive the batch")
            ev7._require_loops_modelled(it, [raw, agg])
    except (ev7._Undecided, ev7._Need) as x:
        chk.unknown("O6.10", f"SamplePostprocessor.__call__ not evaluated on the representative batch: {x}", spc)
        return

    def same(a, b):
        return ev7._same(a, b) and not (isinstance(a, bool) != isinstance(b, bool))

    def carries(v, comp, depth=0):
        """the evaluated value is, or was computed (by something the evaluator does not model) from, the component `comp`."""
        if isinstance(v, T_):
            return depth < 10 and any(carries(a_, comp, depth + 1) for a_ in v.args)
        if isinstance(v, (list, tuple)):
            return depth < 10 and any(carries(a_, comp, depth + 1) for a_ in v)
        return same(v, comp)

    def judge(got, comp):
        """True / False, or None when `got` is a term computed FROM the component by something that is not modelled (a term nothing of the value flows into is not its component)."""
        if isinstance(got, T_):
            return None if carries(got, comp) else False
        return same(got, comp)

    verdicts = {k_: [] for k_ in ("once",) + comp_names + ("task",)}  # obligation -> [(ok | None, detail, node)]
    site = spc
    for it, (raw, agg, _) in runs:
        values = [(t_, v_) for t_, vs in agg.items() for v_ in vs]
        recs = []
        for e in it.effects:
            if not (isinstance(e.callee, T_) and ev7._contains_term(e.callee, store)):
                continue
            if e.callee.path() is None:
                chk.unknown("O6.10", f"call of `{short(e.node.func, 50) if isinstance(e.node, ast.Call) else e.path}`, a value computed from the metrics store by a call that is not modelled", e.node or spc)
                return
            sig = store_methods.get(e.name)
            f = dict(zip(params_of(sig)[1:], e.args)) if sig is not None and len(e.args) <= len(params_of(sig)) - 1 else {f"<argument {i_}>": a_ for i_, a_ in enumerate(e.args)}
            f.update(e.kwargs)
            recs.append((f, e))
        under = lambda e, v_: any(x is v_ for c in e.ctx for x in ((c,) + (tuple(c) if isinstance(c, (tuple, list)) else ())))  # noqa: E731
        any_ctx = any(under(e, v_) for _, e in recs for _, v_ in values)
        for task_, v_ in values:
            what = f"the value ({', '.join(repr(x) for x in v_)}) returned for {task_.f['name']}"
            if any_ctx:
                mine = [(f, e) for f, e in recs if under(e, v_)]
            else:
                # no record is written under a loop over the returned values (comprehension, map ...): a record belongs to the value whose time or (non-zero) throughput it carries
                mine = [(f, e) for f, e in recs if any(same(a_, v_[0]) or (v_[3] != 0 and same(a_, v_[3])) for a_ in f.values())]
            if mine and mine[0][1].node is not None and site is spc:
                site = mine[0][1].node
            if len(mine) != 1:
                verdicts["once"].append((False, f"{what} is written {len(mine)} times" + (": it never reaches the metrics store" if not mine else ""), mine[0][1].node if mine else None))
                continue
            verdicts["once"].append((True, "", None))
            f, e = mine[0]
            opaque_args = [k_ for k_, a_ in f.items() if isinstance(a_, T_)]
            for i_, cn in enumerate(comp_names):
                named = {"absolute time": _ABS, "relative time": _REL, "sample type": _STYPE}.get(cn)
                if named is not None and named in f:
                    got = f[named]
                    ok_ = judge(got, v_[i_])
                    det = f"{what} is stored with {named}={got!r}"
                else:
                    ok_ = True if any(same(a_, v_[i_]) for a_ in f.values()) else (None if any(carries(f[k_], v_[i_]) for k_ in opaque_args) else False)
                    det = f"{what}: no argument of the record is its {cn} {v_[i_]!r} (arguments: {', '.join(f'{k_}={a_!r}' for k_, a_ in f.items() if not isinstance(a_, dict))[:200]})"
                if ok_ is False:
                    src_ = next((f"{o_.name}.{k_}" for o_ in list(raw) + [s_.f["task"] for s_ in raw[:2]] for k_, x in o_.f.items() if named is not None and named in f and same(x, f[named]) and not isinstance(x, (dict, list))), None)
                    if src_ is None and named is not None and named in f:
                        src_ = next((f"the {comp_names[j_]} of the value returned for {t2.f['name']} at t={v2[0]:g}" for t2, v2 in values if v2 is not v_ for j_ in range(5) if same(v2[j_], f[named])), None)
                    det += f" - that is {src_}" if src_ else ""
                    det += (f"; the calculator determined {v_[i_]!r}" if named is not None and named in f else "")
                verdicts[cn].append((ok_, det if ok_ is not True else "", e.node))
            tn = task_.f["name"]
            if "task" in f:
                ok_ = None if isinstance(f["task"], T_) and carries(f["task"], task_) else judge(f["task"], tn)
            else:
                ok_ = True if any(same(a_, tn) for a_ in f.values()) else (None if any(carries(f[k_], tn) for k_ in opaque_args) else False)
            verdicts["task"].append((ok_, "" if ok_ else f"{what} is stored under task {f.get('task')!r}", e.node))

    texts = {"once": "every value returned by the calculator is written to the metrics store exactly once",
             "absolute time": "a throughput record carries the absolute time of its value", "relative time": "a throughput record carries the relative time of its value",
             "sample type": "a throughput record carries the sample type the calculator determined for its value (the per-task type that only rises)",
             "throughput": "a throughput record carries the calculated / runner-supplied number unchanged", "unit": "a throughput record carries the unit of its value",
             "task": "a throughput record is stored under the task its value was returned for"}
    for k_, vs in verdicts.items():
        bad = [x for x in vs if x[0] is False]
        unk = [x for x in vs if x[0] is None]
        if bad:
            chk.ob("O6.10", texts[k_], False, bad[0][2] or site, bad[0][1], key=f"{_D}:SamplePostprocessor.__call__:throughput-record:{k_.replace(' ', '-')}")
        elif not vs and any(x[0] is False for x in verdicts["once"]):
            continue  # the value never reached the store (reported above): there is no record to look at
        elif unk or not vs:
            chk.unknown("O6.10", f"{texts[k_]}: " + (unk[0][1] if unk else "no record located") + " - computed by something the evaluator has no representative value for", (unk[0][2] if unk else None) or site)
        else:
            chk.ob("O6.10", texts[k_], True, site, f"{len(vs)} value(s) of two tasks (one of them 0.0, types rising within a task, all components distinct from every raw sample of the batch)",
                   key=f"{_D}:SamplePostprocessor.__call__:throughput-record:{k_.replace(' ', '-')}")


# ---------------------------------------------------------------------------------------------------------------------------------------


def run(chk):
    repo = chk.repo
    drv = repo.module(_D)
    chk.use(drv)
    chk.explanation = (
        "Decides the conservation skeleton of the throughput calculation: every sample's operations are added to the running count exactly once per "
        "invocation; each loop iteration ends in exactly one of {finish a bucket, keep the sample as unprocessed}; carried total and unprocessed list are "
        "only written together by the bucket-finishing routine; the unprocessed list is merged into the next batch and cleared once merged; interval is "
        "monotone and division is guarded; the emitted sample type is the monotone per-task type; runner throughput is passed through on `is None` dispatch; unit is '<ops>/s'. "
        "Roles (state class, running count, attributes of the state, emit sites incl. extracted tuple helpers) are derived from data flow; the small methods of the per-task state "
        "are decided on representative values (interpreted statement by statement, no repository code runs); so are grouping, merge and order of the batch calculate() hands to the "
        "per-task routines (calculate() interpreted with both routines stubbed) and the one-value-per-sample clause of the pass-through routine. "
        "After the defect hunt: a worker drains its sampler before every overwrite of it (O6.6); necessary conditions for a per-task sticky pass-through decision (O6.7), a "
        "batch-independent unit source (O6.8) and a low-water-mark bucket-closing time over the producers (O6.9) - the last three are falsified on the pinned tree (known findings F49-F51). "
        "After seeding round 5: calculate() is also interpreted on ONE batch with the interleaved samples of four tasks (with / without carried-over samples, new) in every order - the batch "
        "handed over for a task holds that task's new and carried-over samples and nothing of the task handled before it (O6.1); the sample post-processor is evaluated (evaluator of "
        "rules/C07) with the calculator stubbed - every returned value is written to the metrics store exactly once, with its own times, sample type, number, unit and task (O6.10)."
    )
    chk.not_decided = "equality of the emitted numbers with ops/elapsed for all streams (numeric), bucket boundaries under out-of-order arrival."
    TC = drv.cls("ThroughputCalculator")
    tm = drv.methods(TC)
    H = _Helpers(drv, TC)
    calc = tm.get("calculate")
    if calc is None:
        raise AnchorMissing("ThroughputCalculator.calculate")
    sinit = drv.methods(drv.cls("Sample")).get("__init__")
    sfields = {t.attr for n in walk_body(sinit) if isinstance(n, ast.Assign) for t in n.targets if is_self_attr(t)} if sinit is not None else set()
    sfields |= set(drv.methods(drv.cls("Sample")))  # properties
    missing = [f_ for f_ in (_ABS, _REL, _PERIOD, _OPS, _UNIT, _STYPE, _TP, "task") if f_ not in sfields]
    if missing:
        raise AnchorMissing(f"field(s) {missing} of class Sample (the vocabulary of the property)")
    A, TS, ctor, ctor_fn = _state_roles(drv, tm)
    sm = drv.methods(TS)
    H.state_methods = sm
    M = _Model(TS, sm)
    try:
        # the sample types as the state's methods may spell them (metrics.SampleType.Warmup / Normal): members of the enum with their integer values
        st_cls = repo.module("esrally/metrics.py").cls("SampleType")
        members = {n.targets[0].id: n.value.value for n in st_cls.body if isinstance(n, ast.Assign) and len(n.targets) == 1 and isinstance(n.targets[0], ast.Name) and isinstance(n.value, ast.Constant)}
        M.globals = {"metrics": Record(SampleType=Record(**members)), "SampleType": Record(**members)}
    except AnchorMissing:
        pass

    # ---- the two per-task routines: the one that creates the state, and the one that only maps ---------------------------------------------------------
    direct = {}
    for c in walk_body(calc):
        if isinstance(c, ast.Call):
            fn = H.callee(c)
            if fn is not None and fn.name in tm and fn is not calc:
                direct.setdefault(fn.name, []).append(c)
    ctt_c = [m for m in direct if any(f_ is ctor_fn for f_ in H.closure(tm[m]))]
    mtt_c = [m for m in direct if m not in ctt_c and _emits(H, tm[m])]
    if len(ctt_c) != 1 or len(mtt_c) != 1:
        raise AnchorMissing("the routine that calculates a task's throughput (creates the per-task state) and the one that passes runner-supplied values through, both called from calculate()")
    ctt, mtt = tm[ctt_c[0]], tm[mtt_c[0]]
    g = cfg_of(ctt)
    cparams = params_of(ctt)

    # ---- local bound to the task's state ---------------------------------------------------------------------------------------------------------------
    def binds_state(n):
        if not isinstance(n, ast.Assign):
            return []
        names = [t.id for t in n.targets if isinstance(t, ast.Name)]
        if names and (_state_expr(n.value, A) is not None or any(isinstance(t, ast.Subscript) and is_self_attr(t.value, A) for t in n.targets) or _returns_state(H, n.value, A)):
            return names
        return []

    state_binds = [n for n in walk_body(ctt) if binds_state(n)]
    svs = {nm for n in state_binds for nm in binds_state(n)}
    if len(svs) != 1:
        raise AnchorMissing(f"the local bound to the task's entry of self.{A} in {ctt.name}")
    stats_var = svs.pop()
    keys = {u(k[1]) for n in state_binds for k in [_state_expr(n.value, A)] if k} | {u(t.slice) for n in state_binds for t in n.targets if isinstance(t, ast.Subscript) and is_self_attr(t.value, A)}
    keys |= {u(a_) for n in state_binds if _returns_state(H, n.value, A) for a_ in n.value.args if isinstance(a_, ast.Name) and a_.id in cparams}
    key_params = [p for p in cparams if p in keys]
    if not key_params:
        raise AnchorMissing(f"the parameter of {ctt.name} that is the task key of self.{A}")
    key_param = key_params[0]

    def on_stats(n, names=None):
        return isinstance(n, ast.Call) and isinstance(n.func, ast.Attribute) and isinstance(n.func.value, ast.Name) and n.func.value.id == stats_var and n.func.attr in sm \
            and (names is None or n.func.attr in names)

    stat_calls = [n for n in walk_body(ctt) if on_stats(n)]

    # ---- sample loop, running count, finishing routine ---------------------------------------------------------------------------------------------------
    def sample_loop(n):
        if not isinstance(n, ast.For):
            return None
        it, tg = n.iter, n.target
        if isinstance(it, ast.Name) and it.id in cparams and isinstance(tg, ast.Name):
            return it.id, tg.id
        if isinstance(it, ast.Call) and dotted(it.func) == "enumerate" and len(it.args) == 1 and isinstance(it.args[0], ast.Name) and it.args[0].id in cparams \
                and isinstance(tg, ast.Tuple) and len(tg.elts) == 2 and all(isinstance(x, ast.Name) for x in tg.elts):
            return it.args[0].id, tg.elts[1].id
        # for i in range(len(batch)): sample = batch[i]
        if isinstance(it, ast.Call) and dotted(it.func) == "range" and len(it.args) == 1 and not it.keywords and isinstance(tg, ast.Name) and pat.is_(it.args[0], "len(V_b)") \
                and it.args[0].args[0].id in cparams and n.body and isinstance(n.body[0], ast.Assign) and len(n.body[0].targets) == 1 and isinstance(n.body[0].targets[0], ast.Name) \
                and pat.is_(n.body[0].value, "V_b[V_i]", binds={"b": it.args[0].args[0].id, "i": tg.id}) \
                and not any(isinstance(x, ast.Name) and x.id == tg.id and isinstance(x.ctx, ast.Store) for st in n.body for x in ast.walk(st)):
            return it.args[0].args[0].id, n.body[0].targets[0].id
        return None

    loops = [n for n in walk_body(ctt) if sample_loop(n)]
    if not loops:
        raise AnchorMissing(f"sample loop over the batch parameter in {ctt.name}")

    def is_field(e, var, field):
        return isinstance(e, ast.Attribute) and e.attr == field and isinstance(e.value, ast.Name) and e.value.id == var

    augs = {n.target.id for n in walk_body(ctt) if isinstance(n, ast.AugAssign) and isinstance(n.target, ast.Name)}
    from_state = {t.id for n in walk_body(ctt) if isinstance(n, ast.Assign) and isinstance(n.value, ast.Attribute) and isinstance(n.value.value, ast.Name) and n.value.value.id == stats_var
                  for t in n.targets if isinstance(t, ast.Name)}
    handed = [(c, a_.id) for c in stat_calls for a_ in list(c.args) + [k.value for k in c.keywords] if isinstance(a_, ast.Name) and a_.id in (augs | from_state) and a_.id not in cparams]
    cvars = {nm for _, nm in handed}
    # The running count lives either in a LOCAL of the routine (cvar: starts from the state, grows per sample, is handed to the state's finishing routine) or in an ATTRIBUTE of the
    # per-task state (C: the attribute the operations of each sample are added to - by a statement of the routine or inside a state method the sample is handed to - and which the
    # finishing routine moves into the carried total). Both are located by what flows where.
    cvar = C = None
    add_sites = []
    if len(cvars) > 1:
        raise AnchorMissing(f"the running count of {ctt.name} (a local that starts from the state, grows per sample and is handed to the state's finishing routine; candidates: {sorted(cvars)})")
    if cvars:
        cvar = cvars.pop()
        fb_names = {c.func.attr for c, _ in handed}
        if len(fb_names) != 1:
            raise AnchorMissing("the one bucket-finishing routine of the per-task state (receives the running count)")
        fb = sm[fb_names.pop()]
        fin_calls = [c for c, _ in handed]
        L = next((lp for lp in loops if any(isinstance(n, ast.AugAssign) and isinstance(n.target, ast.Name) and n.target.id == cvar for n in ast.walk(lp))), loops[0])
    else:
        ctt_defs = {k_: v_ for k_, v_ in local_defs(ctt).items() if k_ != stats_var}
        ops_flow = []  # (site, loop, attribute of the state that receives <sample>.total_ops there)
        for lp in loops:
            sv_ = sample_loop(lp)[1]
            for n in ast.walk(lp):
                if on_stats(n):
                    fn = sm[n.func.attr]
                    for p, a_ in source.bind_args(n, fn).items():
                        r = source.inline_node(a_, ctt_defs)
                        whole = isinstance(r, ast.Name) and r.id == sv_
                        if whole or is_field(r, sv_, _OPS):
                            ops_flow += [(n, lp, attr) for _, attr in _field_flow(sm, fn, p, whole, _OPS)]
                elif isinstance(n, (ast.Assign, ast.AugAssign)):
                    tg = [t for t in (n.targets if isinstance(n, ast.Assign) else [n.target]) if isinstance(t, ast.Attribute) and isinstance(t.value, ast.Name) and t.value.id == stats_var]
                    if tg and any(is_field(x, sv_, _OPS) for x in ast.walk(source.inline_node(n.value, ctt_defs))):
                        ops_flow += [(n, lp, t.attr) for t in tg]
        c_attrs = {attr for _, _, attr in ops_flow}
        if len(c_attrs) != 1:
            raise AnchorMissing(f"the running count of {ctt.name} (a local that starts from the state, grows per sample and is handed to the state's finishing routine, or the one attribute "
                                f"of the per-task state the operations of each sample are added to; candidates: {sorted(c_attrs)})")
        C = c_attrs.pop()
        for n, _, _ in ops_flow:
            if not any(n is x for x in add_sites):
                add_sites.append(n)
        L = ops_flow[0][1]

        def moves_count(f_):
            """attributes of self (other than the running count) that state method f_ assigns a value computed from the running count."""
            fd = local_defs(f_)
            return [t.attr for n in walk_body(f_) if isinstance(n, (ast.Assign, ast.AugAssign)) and any(is_self_attr(x, C) and isinstance(x.ctx, ast.Load) for x in ast.walk(source.inline_node(n.value, fd)))
                    for t in (n.targets if isinstance(n, ast.Assign) else [n.target]) if is_self_attr(t) and t.attr != C]

        fb_names = {c.func.attr for c in stat_calls if moves_count(sm[c.func.attr])}
        if len(fb_names) != 1:
            raise AnchorMissing(f"the one bucket-finishing routine of the per-task state (moves the running count <state>.{C} into the carried total; candidates: {sorted(fb_names)})")
        fb = sm[fb_names.pop()]
        fin_calls = [c for c in stat_calls if sm[c.func.attr] is fb]
    batch, svar = sample_loop(L)
    Lh = g.node_of(L)

    def in_loop(n):
        return L in list(source.ancestors(n))

    # names that hold ONE sample of the batch: the loop variable, positional elements of the batch, copies of those
    sampled = set()
    changed = True
    while changed:
        changed = False
        for n in walk_body(ctt):
            new = set()
            if isinstance(n, (ast.For, ast.comprehension)) and any(isinstance(x, ast.Name) and x.id == batch for x in ast.walk(n.iter)):
                new = {x.id for x in ast.walk(n.target) if isinstance(x, ast.Name)}
                if isinstance(n.iter, ast.Call) and dotted(n.iter.func) == "enumerate" and isinstance(n.target, ast.Tuple) and len(n.target.elts) == 2 and isinstance(n.target.elts[1], ast.Name):
                    new = {n.target.elts[1].id}
            elif isinstance(n, ast.Assign):
                v = n.value
                element = isinstance(v, ast.Subscript) and isinstance(v.value, ast.Name) and v.value.id == batch and not isinstance(v.slice, ast.Slice)
                if (isinstance(v, ast.Name) and v.id in sampled) or element:
                    new = {t.id for t in n.targets if isinstance(t, ast.Name)}
            if new - sampled:
                sampled |= new
                changed = True
    mutated = {n.func.value.id for n in walk_body(ctt) if isinstance(n, ast.Call) and isinstance(n.func, ast.Attribute) and isinstance(n.func.value, ast.Name)
               and n.func.attr in ("append", "extend", "insert", "add", "update", "pop", "remove", "clear", "sort", "setdefault")}
    mutated |= {n.value.id for n in walk_body(ctt) if isinstance(n, ast.Subscript) and isinstance(n.ctx, (ast.Store, ast.Del)) and isinstance(n.value, ast.Name)}
    keep = {stats_var, svar, batch} | ({cvar} if cvar is not None else set()) | sampled | mutated  # a local that is mutated after its definition is not the value it was defined with

    def res(e):
        return H.resolve(e, ctt, keep)

    # ---- emit sites -----------------------------------------------------------------------------------------------------------------------------------
    emits = _emits(H, ctt, keep)
    if len(emits) < 2:
        raise AnchorMissing(f"the two throughput emit sites (5-tuples: bucket completion and final-sample rule) in {ctt.name}")
    memits = _emits(H, mtt)
    if not memits:
        raise AnchorMissing(f"the emit site (5-tuple) of {mtt.name}")

    # ---- roles of the state's methods and attributes ---------------------------------------------------------------------------------------------------
    def role_calls(field):
        """[(call, parameter, [(method, attribute)])]: calls of a state method in the loop that receive <sample>.<field> (or the sample itself) together with the attributes of the state
        that value flows into and the methods that assign them - the called method itself, or the ones it delegates to (`add_sample(sample)` calling `self.update_interval(...)`)."""
        out = []
        for c in stat_calls:
            if not in_loop(c):
                continue
            fn = sm[c.func.attr]
            b = source.bind_args(c, fn)
            for p, a_ in b.items():
                r = res(a_)
                whole = isinstance(r, ast.Name) and r.id == svar
                if not (whole or is_field(r, svar, field)):
                    continue
                fl = _field_flow(sm, fn, p, whole, field)
                if not fl and _attrs_from_params(fn) and (not whole or any(isinstance(x, ast.Attribute) and x.attr == field and isinstance(x.value, ast.Name) and x.value.id == p for x in ast.walk(fn))):
                    # the value reaches the method and the method stores something derived from its arguments, but not by plain data flow (e.g. through a local bound twice)
                    fl = [(fn, a_) for a_ in _attrs_from_params(fn)]
                if fl:
                    out.append((c, p, fl))
        return out

    ui_calls, mu_calls = role_calls(_ABS), role_calls(_STYPE)
    if len({c.func.attr for c, _, _ in ui_calls}) != 1:
        raise AnchorMissing("the state method that advances the elapsed interval (called per sample with the sample's absolute_time)")
    if len({c.func.attr for c, _, _ in mu_calls}) != 1:
        raise AnchorMissing("the state method that updates the per-task sample type (called per sample with the sample's sample_type)")

    def uniq(cands, what, prefer=()):
        c = sorted(set(cands))
        if len(c) > 1 and prefer:
            c = [x for x in c if x in prefer] or c
        if len(c) != 1:
            raise AnchorMissing(f"{what} (candidates: {c})")
        return c[0]

    readers = set()
    for nm_, f_ in sm.items():
        if len(params_of(f_)) == 1 and nm_ not in ("__init__", "__post_init__", "__repr__", "__str__"):
            readers |= _self_reads(f_)
    ui_flow, mu_flow = [x for _, _, fl in ui_calls for x in fl], [x for _, _, fl in mu_calls for x in fl]
    I = uniq([a_ for _, a_ in ui_flow], "the interval attribute of the per-task state (assigned from the sample time)", readers)
    T_ = uniq([a_ for _, a_ in mu_flow], "the sample-type attribute of the per-task state (assigned from the sample's type)", readers | {x.attr for e in emits for x in ast.walk(e.elts[2]) if isinstance(x, ast.Attribute)})
    # the method called from the routine (site) and the method that assigns the attribute (the same one unless the site method delegates: add_sample -> self.update_interval)
    ui_site, mu_site = sm[ui_calls[0][0].func.attr], sm[mu_calls[0][0].func.attr]
    ui_leaf, mu_leaf = {id(f_): f_ for f_, a_ in ui_flow if a_ == I}, {id(f_): f_ for f_, a_ in mu_flow if a_ == T_}
    if len(ui_leaf) != 1:
        raise AnchorMissing(f"the one state method that assigns <state>.{I} from the sample's absolute_time (candidates: {sorted(f_.name for f_ in ui_leaf.values())})")
    if len(mu_leaf) != 1:
        raise AnchorMissing(f"the one state method that assigns <state>.{T_} from the sample's sample_type (candidates: {sorted(f_.name for f_ in mu_leaf.values())})")
    ui, mu = list(ui_leaf.values())[0], list(mu_leaf.values())[0]
    ui_calls, mu_calls = [(c, p) for c, p, _ in ui_calls], [(c, p) for c, p, _ in mu_calls]
    updaters = (fb, ui, mu, ui_site, mu_site)
    if cvar is not None:
        cnt_inits = [n for n in walk_body(ctt) if isinstance(n, ast.Assign) and any(isinstance(t, ast.Name) and t.id == cvar for t in n.targets)]
        tot_c = [n.value.attr for n in cnt_inits if isinstance(n.value, ast.Attribute) and isinstance(n.value.value, ast.Name) and n.value.value.id == stats_var]
        tot_c = tot_c or [a_ for a_, p in _attrs_from_params(fb).items()]
    else:
        cnt_inits = []
        tot_c = moves_count(fb)
    tot = uniq(tot_c, "the carried-total attribute of the per-task state (the running count starts from it / the finishing routine stores the running count in it)", readers)
    flags = [t.attr for f_ in sm.values() if f_.name not in ("__init__", "__post_init__") for n in walk_body(f_) if isinstance(n, ast.Assign) and isinstance(n.value, ast.Constant) and isinstance(n.value.value, bool)
             for t in n.targets if is_self_attr(t)]
    F = uniq(flags, "the has-a-value-for-this-type flag of the per-task state (set / cleared with boolean constants by its methods)", readers)
    # pending-samples attribute: where the loop keeps the current sample
    keep_sites = []
    for n in walk_body(ctt):
        if isinstance(n, ast.Call) and isinstance(n.func, ast.Attribute) and n.func.attr == "append" and isinstance(n.func.value, ast.Attribute) and isinstance(n.func.value.value, ast.Name) \
                and n.func.value.value.id == stats_var and len(n.args) == 1:
            keep_sites.append((n, n.func.value.attr, n.args[0]))
        elif isinstance(n, ast.Call) and isinstance(n.func, ast.Attribute) and n.func.attr == "extend" and isinstance(n.func.value, ast.Attribute) and isinstance(n.func.value.value, ast.Name) \
                and n.func.value.value.id == stats_var and len(n.args) == 1 and not n.keywords and isinstance(n.args[0], (ast.List, ast.Tuple)) and len(n.args[0].elts) == 1 \
                and not isinstance(n.args[0].elts[0], ast.Starred):
            keep_sites.append((n, n.func.value.attr, n.args[0].elts[0]))
        elif isinstance(n, ast.AugAssign) and isinstance(n.op, ast.Add) and isinstance(n.target, ast.Attribute) and isinstance(n.target.value, ast.Name) and n.target.value.id == stats_var \
                and isinstance(n.value, (ast.List, ast.Tuple)) and len(n.value.elts) == 1:
            keep_sites.append((n, n.target.attr, n.value.elts[0]))
        elif on_stats(n) and len(n.args) == 1 and sm[n.func.attr] not in updaters:
            fn = sm[n.func.attr]
            inner = [x for x in walk_body(fn) if isinstance(x, ast.Call) and isinstance(x.func, ast.Attribute) and x.func.attr == "append" and is_self_attr(x.func.value) and len(x.args) == 1
                     and isinstance(x.args[0], ast.Name) and x.args[0].id in params_of(fn)[1:]]
            if len(inner) == 1:
                keep_sites.append((n, inner[0].func.value.attr, n.args[0]))
    u_cands = [a_ for _, a_, _ in keep_sites]
    if not u_cands:
        # no keep site in the routine (it may have been lost): the pending list is still known as the list the finishing routine empties
        u_cands = [t.attr for n in walk_body(fb) if isinstance(n, ast.Assign) and _empty_list(n.value) for t in n.targets if is_self_attr(t)]
        u_cands += [n.func.value.attr for n in walk_body(fb) if isinstance(n, ast.Call) and isinstance(n.func, ast.Attribute) and n.func.attr == "clear" and is_self_attr(n.func.value)]
    if not u_cands:
        raise AnchorMissing(f"the place where {ctt.name} keeps a sample that completes no bucket (<state>.<pending>.append(<sample>))")
    U = uniq(u_cands, "the pending-samples attribute of the per-task state")

    # constructor parameters by what flows into them
    cb = M.bind_ctor(ctor)
    cdefs_ctor = local_defs(ctor_fn)

    def mentions(e, field):
        return any(isinstance(x, ast.Attribute) and x.attr == field for x in ast.walk(source.inline_node(e, cdefs_ctor)))

    start_ps = [p for p, a_ in cb.items() if mentions(a_, _ABS)]
    type_ps = [p for p, a_ in cb.items() if mentions(a_, _STYPE) and p not in start_ps]
    if len(start_ps) != 1:
        raise AnchorMissing(f"the constructor argument of {TS.name} that fixes the start time (derived from the first sample's absolute_time)")
    start_p = start_ps[0]
    S = M.attr_of_param(start_p)
    if S is None:
        raise AnchorMissing(f"the attribute of {TS.name} that stores constructor parameter `{start_p}`")
    type_p = type_ps[0] if len(type_ps) == 1 else None

    def fresh(**over):
        vals = {start_p: 10.0}
        if type_p:
            vals[type_p] = 0
        rec = M.new(vals)
        for k_, v_ in over.items():
            rec.fields[k_] = v_
        return rec

    roles_ = {tot, U, I, S, T_, F} | ({C} if C is not None else set())

    def variants(**over):
        """representative states: the fields named in `over` fixed, every other numeric field once as initialised and once 0, the flag (unless fixed) both ways."""
        out = []
        for zero in (False, True):
            for fl in ((False, True) if F not in over else (over[F],)):
                r = fresh()
                if zero:
                    for k_, v_ in list(r.fields.items()):
                        if isinstance(v_, (int, float)) and not isinstance(v_, bool) and k_ not in over and k_ not in (S, T_):
                            r.fields[k_] = 0
                r.fields[F] = fl
                r.fields.update(over)
                out.append(r)
        return out

    def show(r):
        return "{" + ", ".join(f"{k_}=" + (f"<{len(v_)} sample(s)>" if isinstance(v_, list) and v_ and all(isinstance(x, Record) for x in v_) else repr(v_))
                               for k_, v_ in r.fields.items() if k_ in roles_ or (isinstance(v_, (int, float)) and not isinstance(v_, bool))) + "}"

    def pred_name(f_):
        """name of the state predicate (method without arguments, or property) a condition consists of, else None."""
        if on_stats(f_) and not f_.args and not f_.keywords:
            return f_.func.attr
        if isinstance(f_, ast.Attribute) and isinstance(f_.value, ast.Name) and f_.value.id == stats_var and f_.attr in M.props:
            return f_.attr
        return None

    def pred_calls(node):
        """state predicates among the conditions under which `node` runs."""
        return [pred_name(f_) for f_ in pat.fact_nodes(node) if pred_name(f_) is not None]

    # =====================================================================================================================================================
    # ---- O6.1 conservation --------------------------------------------------------------------------------------
    chk.rule("O6.1", "running count starts from the carried total; count += sample.total_ops exactly once per iteration, unconditionally; each iteration ends in exactly "
             "one of {finish bucket(count), append sample to unprocessed}; carried total and unprocessed are written only by the finishing routine, together; "
             "unprocessed is merged into the next batch iff the task has state and is cleared once merged", 8,
             "any cut of the sample stream inside a bucket: operations are lost or counted twice, so throughput depends on batching")
    def run_site(n, env):
        """interpret the statement of the routine that holds site n (its single-assignment locals resolved) on the values in env."""
        st = source.enclosing_stmt(n)
        if not isinstance(st, (ast.Expr, ast.Assign, ast.AugAssign)):
            if isinstance(n, ast.Call):
                return M.ev(res(n), env)  # a call inside the test of a compound statement: the call alone
            raise CannotEval(f"`{short(st, 50)}`: not a plain statement")
        fresh_st = ast.parse(u(st)).body[0]
        fresh_st.value = res(st.value)
        M.run([fresh_st], env)

    def one_sample_env(r, s):
        env = {stats_var: r, batch: [s], key_param: "t", "self": Record(**{A: {"t": r}})}
        env.update({nm_: s for nm_ in sampled})
        return env

    if cvar is not None:
        if not cnt_inits:
            raise AnchorMissing("initialisation of the running count")
        ci = cnt_inits[0]
        placed = len(cnt_inits) == 1 and g.dominated_by_nodes(Lh, [g.node_of(ci)]) and not in_loop(ci)

        def count_from_total():
            """the initial value of the running count, evaluated on states with different carried totals (however it is read: attribute, getter, property, local)."""
            e = res(ci.value)
            for t0 in (7, 0, 42):
                for r in variants(**{tot: t0, I: 2.5}):
                    r.fields[U] = [_sample(), _sample()]
                    got = M.ev(e, {stats_var: r, batch: [_sample(total_ops=3)], key_param: "t", "self": Record(**{A: {"t": r}})})
                    if got != t0:
                        return False, f"`{short(ci, 60)}`: the count starts at {got!r} for a task whose carried total is {t0} ({show(r)})"
            return True, short(ci, 60)

        if placed:
            _decide(chk, "O6.1", "count starts from the carried total", ci, count_from_total)
        else:
            chk.ob("O6.1", "count starts from the carried total", False, ci, f"{len(cnt_inits)} assignment(s) of `{cvar}`; `{short(ci, 60)}` does not run exactly once before the sample loop")
        adds = [n for n in walk_body(ctt) if isinstance(n, ast.AugAssign) and isinstance(n.target, ast.Name) and n.target.id == cvar]
        ok = len(adds) == 1 and isinstance(adds[0].op, ast.Add) and is_field(res(adds[0].value), svar, _OPS) and source.enclosing(adds[0], (ast.For, ast.While)) is L \
            and _every_iteration_passes(g, L, [g.node_of(adds[0])])
        if adds:
            chk.ob("O6.1", "count += sample.total_ops once per iteration, unconditionally", ok, adds[0], f"{len(adds)} update(s) of {cvar}: {[short(a, 50) for a in adds]}")
        else:
            chk.unknown("O6.1", f"no augmented update of the running count `{cvar}` in {ctt.name}: how the operations of a sample are added was not recognised", L)
        other_cnt = [n for n in walk_body(ctt) if isinstance(n, ast.Assign) and any(isinstance(t, ast.Name) and t.id == cvar for t in n.targets) and n not in cnt_inits[:1]]
        other_cnt += [n for n in walk_body(ctt) if isinstance(n, (ast.For, ast.comprehension, ast.NamedExpr)) and any(isinstance(x, ast.Name) and x.id == cvar for x in ast.walk(n.target))]
        chk.ob("O6.1", "no other writer of the running count", not other_cnt, other_cnt[0] if other_cnt else ctt, "")
    else:
        # The running count is the attribute C of the per-task state. Where it is set and where it grows are located by data flow (statements of the routine that assign <state>.C, or
        # calls of state methods that - themselves or through self.m(...) - assign it); WHAT those places do is decided on values: the statement is interpreted on representative states.
        def writes_count(n):
            if isinstance(n, (ast.Assign, ast.AugAssign)):
                return any(isinstance(t, ast.Attribute) and t.attr == C and isinstance(t.value, ast.Name) and t.value.id == stats_var for t in (n.targets if isinstance(n, ast.Assign) else [n.target]))
            return on_stats(n) and any(_self_writes(f_, C) for f_ in _state_closure(sm, sm[n.func.attr]))

        cnt_sites = [n for n in walk_body(ctt) if writes_count(n) and not any(n is x for x in add_sites) and not any(n is x for x in fin_calls)]
        if not cnt_sites:
            raise AnchorMissing(f"initialisation of the running count (<state>.{C}) in {ctt.name}")
        placed = all(not in_loop(n) for n in cnt_sites) and g.dominated_by_nodes(Lh, [g.node_of(n) for n in cnt_sites])

        def count_from_total(ci):
            """the statement that sets the running count before the loop, interpreted on states with different carried totals and a stale count left over from the previous batch."""
            def f():
                for t0 in (7, 0, 42):
                    for r in variants(**{tot: t0, I: 2.5}):
                        r.fields[U] = [_sample(), _sample()]
                        r.fields[C] = 99
                        run_site(ci, one_sample_env(r, _sample(total_ops=3)))
                        got = r.fields.get(C)
                        if got != t0:
                            return False, f"`{short(ci, 60)}`: the count ({C}) starts at {got!r} for a task whose carried total is {t0} ({show(r)})"
                return True, f"{short(ci, 60)}: <state>.{C} == <state>.{tot} afterwards on all representative states"
            return f

        if placed:
            for ci in cnt_sites:
                _decide(chk, "O6.1", "count starts from the carried total", ci, count_from_total(ci))
        else:
            chk.ob("O6.1", "count starts from the carried total", False, cnt_sites[0],
                   f"{len(cnt_sites)} place(s) set <state>.{C} besides the per-sample update: {[short(n, 50) for n in cnt_sites]}; the count is not set on every way to the sample loop, or is set again inside it")
        a_nodes = [g.node_of(a_) for a_ in add_sites]
        twice = any(x is not y and g.path_exists(x, y, avoid=[Lh]) for x in a_nodes for y in a_nodes)
        placed_add = all(source.enclosing(a_, (ast.For, ast.While)) is L for a_ in add_sites) and _every_iteration_passes(g, L, a_nodes) and not twice

        def adds_ops(site):
            def f():
                for c0, k_ in ((7, 5), (0, 0), (42, 100000), (3, 0), (0, 1)):
                    for cur, new_ in itertools.product((0, 1), (0, 1)):
                        for r in variants(**{tot: 1, I: 2.5, T_: cur}):
                            r.fields[C] = c0
                            before = show(r)
                            run_site(site, one_sample_env(r, _sample(total_ops=k_, sample_type=new_)))
                            if r.fields.get(C) != c0 + k_:
                                return False, f"`{short(site, 50)}` with a sample of {k_} operations (sample type {new_}) on {before}: the count ({C}) is {r.fields.get(C)!r} afterwards, expected {c0 + k_}"
                return True, f"`{short(site, 50)}`: <state>.{C} grows by exactly the sample's total_ops on all representative states and samples"
            return f

        if placed_add:
            for a_ in add_sites:
                _decide(chk, "O6.1", "count += sample.total_ops once per iteration, unconditionally", a_, adds_ops(a_))
        else:
            chk.ob("O6.1", "count += sample.total_ops once per iteration, unconditionally", False, add_sites[0],
                   f"{len(add_sites)} place(s) add the sample's operations to <state>.{C}: {[short(a_, 50) for a_ in add_sites]}; not exactly one of them runs on every way through an iteration of the sample loop")
        allowed = [f_ for n in cnt_sites + add_sites if on_stats(n) for f_ in _state_closure(sm, sm[n.func.attr])] + [fb]
        other_cnt = [n for n in ast.walk(drv.tree) if isinstance(n, (ast.Assign, ast.AugAssign)) and source.enclosing_class(n) in (TS, TC)
                     and any(isinstance(x, ast.Attribute) and x.attr == C and isinstance(x.ctx, ast.Store) for t in (n.targets if isinstance(n, ast.Assign) else [n.target]) for x in ast.walk(t))
                     and not any(n is x for x in cnt_sites + add_sites)
                     and not (source.enclosing_func(n) is not None and ((source.enclosing_func(n).name in ("__init__", "__post_init__") and source.enclosing_class(n) is TS)
                                                                        or any(source.enclosing_func(n) is f_ for f_ in allowed)))]
        chk.ob("O6.1", "no other writer of the running count", not other_cnt, other_cnt[0] if other_cnt else ctt,
               "" if not other_cnt else f"`{short(other_cnt[0], 60)}` writes <state>.{C} besides its initialisation before the loop and the per-sample update")
    # iteration ends in exactly one of finish / keep
    fin_in = [c for c in fin_calls if in_loop(c)]
    keep_in = [k for k in keep_sites if in_loop(k[0])]
    nodes = [g.node_of(c) for c in fin_in] + [g.node_of(k[0]) for k in keep_in]
    ok = bool(fin_in) and bool(keep_in) and _every_iteration_passes(g, L, nodes)
    # a place in the loop that hands the current sample to the state, to its pending list or to a helper in a way that is not one of the recognised keep forms: the sample may be
    # kept there - "no keep site" is then "not recognised", not "the sample is lost"
    maybe_keep = []
    if not ok and not keep_in:
        known_ = {id(c) for c in fin_in} | {id(c) for c in stat_calls if sm[c.func.attr] in updaters}
        for n in ast.walk(L):
            if isinstance(n, ast.Call) and id(n) not in known_ and not is_logging_call(n):
                args_ = list(n.args) + [k.value for k in n.keywords]
                hands_sample = any((isinstance(a_, ast.Name) and a_.id == svar) or (isinstance(a_, (ast.List, ast.Tuple)) and any(isinstance(x, ast.Name) and x.id == svar for x in a_.elts)) for a_ in args_)
                to_state = on_stats(n) or H.callee(n) is not None or (isinstance(n.func, ast.Attribute) and any(isinstance(x, ast.Name) and x.id == stats_var for x in ast.walk(n.func.value)))
                if hands_sample and to_state:
                    maybe_keep.append(n)
    if maybe_keep:
        chk.unknown("O6.1", f"no recognised keep site in the sample loop, but `{short(maybe_keep[0], 60)}` hands the current sample on: whether a sample that completes no bucket is kept was not recognised", maybe_keep[0])
    else:
        chk.ob("O6.1", "every iteration finishes a bucket or keeps the sample", ok, L, f"finish sites={len(fin_in)} keep sites={len(keep_in)}" + ("" if ok else "; an iteration can reach the back edge doing neither (sample lost)"))
    both = any(g.path_exists(g.node_of(a), g.node_of(b[0]), avoid=[Lh]) or g.path_exists(g.node_of(b[0]), g.node_of(a), avoid=[Lh]) for a in fin_in for b in keep_in)
    chk.ob("O6.1", "never both in one iteration", not both, keep_in[0][0] if keep_in else L, "finish and keep are on disjoint paths" if not both else "a sample can be counted in the carried total AND kept as unprocessed")
    for c, _, arg in keep_in:
        r = res(arg)
        chk.ob("O6.1", "the kept element is the current sample", isinstance(r, ast.Name) and r.id == svar, c, short(c, 60))
    for c in fin_calls:
        if cvar is not None:
            b = source.bind_args(c, fb)
            ok = len(b) == 1 and len(c.args) + len(c.keywords) == 1 and all(isinstance(a_, ast.Name) and a_.id == cvar for a_ in b.values())
            chk.ob("O6.1", "bucket finished with the running count", ok, c, short(c, 60))
        else:
            def finished_with_count(c=c):
                """the call site interpreted on states whose running count differs from the carried total: the carried total is the running count afterwards."""
                for t0, cnt in ((7, 42), (7, 7), (0, 0), (0, 5)):
                    for r in variants(**{tot: t0, I: 2.5}):
                        r.fields[C] = cnt
                        r.fields[U] = [_sample()]
                        run_site(c, one_sample_env(r, _sample()))
                        if r.fields.get(tot) != cnt:
                            return False, f"`{short(c, 50)}` with carried total {t0} and running count {cnt}: the carried total is {r.fields.get(tot)!r} afterwards"
                return True, f"{short(c, 60)}: <state>.{tot} == <state>.{C} afterwards"

            _decide(chk, "O6.1", "bucket finished with the running count", c, finished_with_count)
    # finish writes carried total := running count and unprocessed := []  (decided on values)
    if cvar is not None and len(params_of(fb)) != 2:
        raise AnchorMissing(f"{TS.name}.{fb.name}(self, <new total>)")

    def do_finish(r, arg):
        """the finishing routine interpreted on state r with running count `arg` (its argument, or the state's own count attribute)."""
        if C is None:
            return M.call(r, fb.name, arg)
        r.fields[C] = arg
        return M.call(r, fb.name)

    def after_finish(field, expect):
        """the finishing routine, interpreted on representative states (growing / unchanged / zero total, flag either way, with and without elapsed time, with pending samples)."""
        def f():
            for t0, arg in ((7, 42), (7, 7), (0, 0), (0, 5)):
                for r in variants(**{tot: t0, I: 2.5}) + variants(**{tot: t0, I: 0}):
                    r.fields[U] = ["s1", "s2"]
                    if C is not None:
                        r.fields[C] = arg
                    before = show(r)
                    do_finish(r, arg)
                    want = arg if expect is _NOTHING else expect
                    if r.fields.get(field) != want:
                        return False, f"{fb.name}({arg if C is None else ''}) on {before}{'' if C is None else f' with running count {arg}'}: {field} is {r.fields.get(field)!r} afterwards, expected {want!r}"
            return True, f"{field} == {'the running count' if expect is _NOTHING else repr(expect)} after {fb.name}({'n' if C is None else ''}) on all representative states"
        return f

    _decide(chk, "O6.1", "finish: carried total := argument", fb, after_finish(tot, _NOTHING))
    _decide(chk, "O6.1", "finish: unprocessed := []", fb, after_finish(U, []))
    if C is not None:
        # the count keeps running after a bucket has been closed inside a batch: the next bucket of the same batch continues from it
        _decide(chk, "O6.1", "finish: the running count continues from the new carried total", fb, after_finish(C, _NOTHING))
    # a state method that changes nothing but empties the pending list (decided on values), called before the loop on every path, is the reset-once-merged in another spelling
    def is_reset(fn):
        try:
            r = fresh(**{tot: 7, U: ["s1"], I: 2.5})
            before = dict(r.fields)
            M.call(r, fn.name)
            # (a running count kept in the state may be set by the same method: what it is set to is the business of "count starts from the carried total")
            return r.fields.get(U) == [] and all(r.fields.get(k_) == v_ for k_, v_ in before.items() if k_ not in (U, C))
        except (CannotEval, TypeError, ValueError, KeyError, ZeroDivisionError, RecursionError):
            return False

    reset_calls = [c for c in stat_calls if not c.args and not c.keywords and sm[c.func.attr] not in updaters and not in_loop(c) and g.dominated_by_nodes(Lh, [g.node_of(c)]) and is_reset(sm[c.func.attr])]
    reset_fns = [sm[c.func.attr] for c in reset_calls]
    # who may write total_count / unprocessed
    for attr in (tot, U):
        for n in ast.walk(drv.tree):
            if isinstance(n, (ast.Assign, ast.AugAssign)):
                tg = n.targets if isinstance(n, ast.Assign) else [n.target]
                for t in [x for t_ in tg for x in ast.walk(t_) if isinstance(x, ast.Attribute) and isinstance(x.ctx, ast.Store)]:
                    if t.attr == attr and source.enclosing_class(n) is not None and source.enclosing_class(n) in (TS, TC):
                        fn = source.enclosing_func(n)
                        if fn is not None and fn.name in ("__init__", "__post_init__") and source.enclosing_class(n) is TS:
                            continue
                        if fn is fb:
                            continue
                        if attr == U and any(fn is x for x in reset_fns):
                            chk.ob("O6.1", "unprocessed cleared once merged (before the loop)", True, reset_calls[0], short(reset_calls[0], 60))
                            continue
                        if attr == U and fn is ctt and isinstance(n, ast.Assign) and _empty_list(n.value) and not in_loop(n) and g.dominated_by_nodes(Lh, [g.node_of(n)]):
                            chk.ob("O6.1", "unprocessed cleared once merged (before the loop)", True, n, short(n, 60))
                            continue
                        if attr == U and fn is calc and isinstance(n, ast.Assign) and _empty_list(n.value) and len(n.targets) == 1 and isinstance(n.targets[0], ast.Attribute) \
                                and _denotes_state(n.targets[0].value, calc, A):
                            # the task's pending list is re-bound to a fresh list in calculate(), next to the merge (that the carried-over samples have reached the batch by then
                            # is the merge obligation, decided on values: a lazy chain keeps reading the old list)
                            chk.ob("O6.1", "unprocessed cleared once merged (at the merge site)", True, n, short(n, 60))
                            continue
                        chk.ob("O6.1", f"{attr} written outside the bucket-finishing routine", False, n,
                               f"{short(n, 60)} — carried total and unprocessed must change together (conservation)")
    # merged into next batch: calculate() combines the new samples with <state>.<pending> whenever the task has state
    per_task = source.enclosing(direct[ctt.name][0], (ast.For, ast.While))
    if per_task is not None and source.enclosing_func(per_task) is not calc:
        per_task = None
    cdefs = local_defs(calc)

    def state_base(e, scope):
        """key expression if e denotes the task's state object in `scope`: self.A[k] / self.A.get(k) or a local / walrus bound to it."""
        k = _state_expr(e, A)
        if k is None and isinstance(e, ast.Name):
            walrus = [n.value for n in ast.walk(scope) if isinstance(n, ast.NamedExpr) and isinstance(n.target, ast.Name) and n.target.id == e.id]
            for v in walrus + [n.value for n in walk_body(scope) if isinstance(n, ast.Assign) and any(isinstance(t, ast.Name) and t.id == e.id for t in n.targets)]:
                k = k or _state_expr(v, A)
        return k[1] if k else None

    # the merge may have been extracted into a helper that calculate() calls: look there too
    mscope, pend = calc, []
    for sc in [calc] + [fn_ for c in walk_body(calc) if isinstance(c, ast.Call) for fn_ in [H.callee(c)] if fn_ is not None and fn_ not in (ctt, mtt, calc)]:
        pend = [n for n in walk_body(sc) if isinstance(n, ast.Attribute) and n.attr == U and isinstance(n.ctx, ast.Load) and state_base(n.value, sc) is not None]
        if pend:
            mscope = sc
            break
    mdefs = local_defs(mscope)

    def combo_of(x):
        return next((a_ for a_ in source.ancestors(x) if (isinstance(a_, ast.Call) and last_attr(a_.func) == "chain") or (isinstance(a_, ast.BinOp) and isinstance(a_.op, ast.Add))
                     or (isinstance(a_, (ast.List, ast.Tuple)) and any(isinstance(y, ast.Starred) for y in a_.elts))), None)

    # Decided on VALUES first: calculate() is interpreted statement by statement (grouping, merge, sort, dispatch; helpers it calls included) with the two per-task routines
    # stubbed, for a task that has carried-over samples, a task that has state but nothing pending and a task seen for the first time. What reaches the per-task routine is the
    # batch - however it was put together (chain + sort, sort + heapq.merge, concatenation, a conditional expression, an extracted helper ...). The carried-over samples are in
    # time order (they were appended in the order of a sorted batch - "the kept element is the current sample" - to a list that was empty before the loop), the new ones arrive in
    # any order; relative_time and time_period run against absolute_time so that a sort by the wrong field shows.
    sp = params_of(calc)[1] if len(params_of(calc)) > 1 else None
    MC = _Model(TC, tm)
    MC.funcs = M.funcs = H.funcs
    MC.globals = dict(M.globals)

    def calculator():
        """a record that stands for a fresh calculator: the statements of __init__ that can be interpreted are (a logger, a clock ... are left out), the per-task table is empty."""
        me = Record()
        me._model = MC
        init = tm.get("__init__")
        if init is not None and len(params_of(init)) == 1:
            for st in init.body:
                try:
                    MC.run([st], {params_of(init)[0]: me, **MC.globals})
                except (CannotEval, _Ret, _Jump, TypeError, ValueError, KeyError, AttributeError, IndexError, ZeroDivisionError):
                    pass
        me.fields[A] = {}
        return me

    def handed_over(state, new):
        """[(routine, {parameter: value})]: what calculate() hands to the per-task routines when the calculator holds `state` ({task: state record}) and receives `new`."""
        seen = []

        def stub(fn_):
            def f(b_):
                seen.append((fn_, b_))
                return []
            return f

        me = calculator()
        me.fields[A] = dict(state)
        MC.stubs = {ctt.name: stub(ctt), mtt.name: stub(mtt)}
        try:
            MC.call(me, calc.name, new)
        finally:
            MC.stubs = {}
        return seen

    def batch_scenarios():
        if sp is None:
            raise CannotEval("calculate() takes no batch of samples")
        out = []
        for name, pend_ in (("a task with two carried-over samples", [(3.0, 9.0, 1.0), (6.0, 4.0, 0.7)]), ("a task that has state and nothing carried over", []), ("a task seen for the first time", None)):
            task_ = _Task(name="t")
            old_ = [_sample(task=task_, absolute_time=a_, relative_time=r_, time_period=p_) for a_, r_, p_ in pend_ or []]
            new_ = [_sample(task=task_, absolute_time=a_, relative_time=r_, time_period=p_) for a_, r_, p_ in ((8.0, 1.0, 7.0), (5.0, 6.0, 0.3), (7.0, 2.0, 0.5))]
            seen = handed_over({} if pend_ is None else {task_: fresh(**{U: list(old_)})}, list(new_))
            got = [v_ for fn_, b_ in seen for p_, v_ in b_.items() if (p_ == batch if fn_ is ctt else isinstance(v_, (list, tuple, _Iter)))]
            if len(got) != 1 or not isinstance(got[0], (list, tuple)) or not all(isinstance(x, Record) and _ABS in x.fields for x in got[0]):
                raise CannotEval(f"calculate() hands {len(got)} batch(es) to {ctt.name} / {mtt.name} for {name}" if len(got) != 1 else f"the batch handed over for {name} is not a list of samples")
            out.append((name, old_, new_, list(got[0])))
        return out

    sc, sc_why = None, ""
    try:
        sc = batch_scenarios()
    except (CannotEval, RecursionError, ZeroDivisionError, TypeError, ValueError, KeyError, AttributeError, IndexError) as x:
        sc_why = f"{type(x).__name__}: {str(x)[:100]}"
    if sc is not None:
        ok, detail = True, "every carried-over and every new sample reaches the per-task routine exactly once (task with carried-over samples, with state only, new task)"
        for name, old_, new_, got in sc:
            for what, items in (("carried-over", old_), ("new", new_)):
                for s_ in items:
                    k_ = sum(1 for x in got if x is s_)
                    if k_ != 1 and ok:
                        ok, detail = False, (f"{name}: the {what} sample at t={s_.fields[_ABS]} occurs {k_} times in the batch of {len(got)} handed to the per-task routine "
                                             f"({len(old_)} carried over + {len(new_)} new): " + ("its operations are never counted" if k_ == 0 else "its operations are counted more than once"))
            if ok and len(got) != len(old_) + len(new_):
                ok, detail = False, f"{name}: the batch handed to the per-task routine has {len(got)} elements for {len(old_)} carried-over + {len(new_)} new samples"
        chk.ob("O6.1", "unprocessed merged into the next batch when the task has state", ok, pend[0] if pend and mscope is calc else direct[ctt.name][0], detail,
               key=f"{_D}:ThroughputCalculator.calculate:carried-over-samples-merged-into-the-batch")
    elif pend:
        m = pend[0]
        combo, use = combo_of(m), m
        st_ = source.enclosing_stmt(m)
        if combo is None and isinstance(st_, ast.Assign) and st_.value is m and len(st_.targets) == 1 and isinstance(st_.targets[0], ast.Name):
            # the pending list is bound to a local first: follow the local
            for x in walk_body(mscope):
                if isinstance(x, ast.Name) and x.id == st_.targets[0].id and isinstance(x.ctx, ast.Load) and combo_of(x) is not None:
                    combo, use = combo_of(x), x
                    break
        n_src = 0 if combo is None else (len(combo.args) if isinstance(combo, ast.Call) else (2 if isinstance(combo, ast.BinOp) else len(combo.elts)))
        key_name = source.inline_node(state_base(m.value, mscope), mdefs)
        facts = pat.fact_nodes(use, stop=per_task if mscope is calc else None)

        def merged_when_state():
            if not isinstance(key_name, ast.Name):
                raise CannotEval(f"task key `{u(key_name)}`")
            if combo is None:
                raise CannotEval(f"how `{short(source.enclosing_stmt(m), 60)}` combines the pending samples with the new ones")
            pending = [_sample(absolute_time=3.0)]
            env = {"self": Record(**{A: {"t": Record(**{U: pending})}}), key_name.id: "t"}
            for nm_, v_ in mdefs.items():
                if isinstance(v_, ast.Name) and u(source.inline_node(v_, mdefs)) == key_name.id:
                    env[nm_] = "t"
            operands = combo.args if isinstance(combo, ast.Call) else ([combo.left, combo.right] if isinstance(combo, ast.BinOp) else [getattr(x, "value", x) for x in combo.elts])
            for o_ in operands:
                if isinstance(o_, ast.Name) and o_ is not use and o_.id not in env:
                    env[o_.id] = [_sample(absolute_time=5.0)]  # the new samples of the task: a batch always brings at least one
            vals = [(u(f_), bool(minieval.ev(source.inline_node(f_, {k_: v_ for k_, v_ in mdefs.items() if not isinstance(v_, ast.Name)}, no_calls=True), env))) for f_ in facts]
            return n_src >= 2 and all(v for _, v in vals), f"{short(combo, 70)} under {vals} (task with state)"

        _decide(chk, "O6.1", "unprocessed merged into the next batch when the task has state", combo if combo is not None else m, merged_when_state)
    else:
        opaque = [c for c in walk_body(calc) if isinstance(c, ast.Call) and H.callee(c) is not None and H.callee(c) not in (ctt, mtt)]
        if opaque:
            chk.unknown("O6.1", f"no read of <state>.{U} in calculate(); `{short(opaque[0], 50)}` may merge the carried-over samples", opaque[0])
        else:
            chk.ob("O6.1", "unprocessed merged into the next batch when the task has state", False, calc, f"calculate() never reads <state>.{U}: no chain(new samples, <stats>.{U})")
    # Several tasks in ONE call (a parallel element; a client that starts its next task while the others keep running): what the per-task routine receives for a task is made of THAT
    # task's samples only - its new ones and the ones carried over under ITS key. Nothing computed for the task handled before it in the per-task loop may reach it (a local that
    # is bound on some paths only keeps the value of the previous iteration, an accumulator grows from task to task). Decided on VALUES: calculate() interpreted (per-task routines
    # stubbed) on a batch with the interleaved samples of four tasks - one with two carried-over samples, one with state and nothing pending, one seen for the first time, one with
    # a single carried-over sample - for every order in which the tasks can come up (the per-task loop runs in the order of first appearance in the batch).
    _ROLES = (("A", "has two carried-over samples", ((3.0, 9.0, 1.0), (6.0, 4.0, 0.7))), ("B", "has state and nothing carried over", ()), ("C", "is seen for the first time", None),
              ("D", "has one carried-over sample", ((4.0, 2.0, 0.2),)))

    def isolation_on_values():
        if sp is None:
            raise CannotEval("calculate() takes no batch of samples")
        for order in itertools.permutations(range(len(_ROLES))):
            tasks_ = [_Task(name=r_[0]) for r_ in _ROLES]
            old_ = [[_sample(task=tasks_[i_], absolute_time=a_ + 0.01 * i_, relative_time=r_, time_period=p_) for a_, r_, p_ in (_ROLES[i_][2] or ())] for i_ in range(len(_ROLES))]
            new_ = [[] for _ in _ROLES]
            stream = []
            for rnd, t0_ in enumerate((8.0, 5.0)):  # the second sample of every task is OLDER than the first (out-of-order arrival across workers)
                for pos, i_ in enumerate(order):
                    s_ = _sample(task=tasks_[i_], absolute_time=t0_ + 0.1 * pos + 0.01 * i_, relative_time=1.0 + rnd, time_period=0.5 + rnd, client_id=i_)
                    new_[i_].append(s_)
                    stream.append(s_)
            state = {tasks_[i_]: fresh(**{U: list(old_[i_])}) for i_ in range(len(_ROLES)) if _ROLES[i_][2] is not None}
            seen = handed_over(state, list(stream))
            calls_ = [(b_.get(key_param) if fn_ is ctt else None, v_) for fn_, b_ in seen for p_, v_ in b_.items() if (p_ == batch if fn_ is ctt else isinstance(v_, (list, tuple, _Iter)))]
            if not calls_ or any(not isinstance(v_, (list, tuple)) or not all(isinstance(x, Record) and "task" in x.fields for x in v_) for _, v_ in calls_):
                raise CannotEval("the batches handed to the per-task routines are not lists of samples")
            came = ", ".join(_ROLES[i_][0] for i_ in order)
            for i_, (nm_, what_, _) in enumerate(_ROLES):
                mine = [v_ for k_, v_ in calls_ if (k_ is tasks_[i_] if isinstance(k_, _Task) else any(x is s_ for x in v_ for s_ in new_[i_]))]
                for v_ in mine:
                    for x in v_:
                        if x.fields["task"] is not tasks_[i_]:
                            j_ = next(j for j, t_ in enumerate(tasks_) if t_ is x.fields["task"])
                            kind = "carried-over" if any(x is s_ for s_ in old_[j_]) else "new"
                            return False, (f"tasks coming up in the order {came}: the batch handed to the per-task routine for task {nm_} (which {what_}) holds the {kind} sample at "
                                           f"t={x.fields[_ABS]:g} of task {_ROLES[j_][0]} (which {_ROLES[j_][1]}): the operations of another task are counted for this one (and once more for "
                                           "their own task), and a foreign sample that sorts first fixes this task's start time")
                for what, items in (("carried-over", old_[i_]), ("new", new_[i_])):
                    for s_ in items:
                        k_ = sum(1 for v_ in mine for x in v_ if x is s_)
                        if k_ != 1:
                            return False, (f"tasks coming up in the order {came}: the {what} sample at t={s_.fields[_ABS]:g} of task {nm_} (which {what_}) reaches the per-task routine "
                                           f"{k_} times under its own task: " + ("its operations are never counted" if k_ == 0 else "its operations are counted more than once"))
        return True, (f"four interleaved tasks (two carried-over samples / state only / new / one carried-over sample) in all {len(list(itertools.permutations(range(len(_ROLES)))))} orders: "
                      "every batch handed to a per-task routine holds exactly that task's new and carried-over samples")

    def isolation_structural():
        """fallback for a calculate() the interpreter cannot evaluate: no local that flows into the batch handed to the per-task routines carries a value from one iteration of the
        per-task loop into the next (bound inside the loop, but not on every way from the loop head to a read of it; or bound before the loop and grown in place inside it)."""
        if per_task is None or not isinstance(per_task, ast.For):
            raise CannotEval("the per-task loop of calculate() was not located")
        gc = cfg_of(calc)

        def stores(n):
            """names a statement binds afresh (an augmented assignment or an in-place growth is not a fresh binding; comprehension / lambda variables live in their own scope)."""
            if isinstance(n, ast.Assign):
                tg = n.targets
            elif isinstance(n, (ast.AnnAssign, ast.For, ast.AsyncFor)):
                tg = [n.target] if getattr(n, "value", True) is not None else []
            elif isinstance(n, (ast.With, ast.AsyncWith)):
                tg = [it_.optional_vars for it_ in n.items if it_.optional_vars is not None]
            else:
                return set()
            return {x.id for t in tg for x in ast.walk(t) if isinstance(x, ast.Name) and isinstance(x.ctx, ast.Store)}

        own = {x.id for x in ast.walk(per_task.target) if isinstance(x, ast.Name)}
        inside = [n for st in per_task.body for n in ast.walk(st)]
        flow = set()
        for c_, fn_ in [(c_, ctt) for c_ in direct[ctt.name]] + [(c_, mtt) for c_ in direct[mtt.name]]:
            for a_ in list(c_.args) + [k.value for k in c_.keywords]:
                flow |= {x.id for x in ast.walk(a_) if isinstance(x, ast.Name)}
        grown = {}
        changed_ = True
        while changed_:
            changed_ = False
            for n in inside:
                src_, tgt_ = None, set()
                if isinstance(n, (ast.Assign, ast.AugAssign, ast.AnnAssign, ast.NamedExpr)) and getattr(n, "value", None) is not None:
                    tg = n.targets if isinstance(n, ast.Assign) else [n.target]
                    tgt_ = {x.id for t in tg for x in ast.walk(t) if isinstance(x, ast.Name) and isinstance(x.ctx, ast.Store)}
                    src_ = n.value
                    if isinstance(n, ast.AugAssign) and isinstance(n.target, ast.Name):
                        grown.setdefault(n.target.id, n)
                elif isinstance(n, ast.Call) and isinstance(n.func, ast.Attribute) and isinstance(n.func.value, ast.Name) and n.func.attr in ("append", "extend", "insert", "update", "add"):
                    tgt_ = {n.func.value.id}
                    src_ = n
                    grown.setdefault(n.func.value.id, n)
                if src_ is not None and tgt_ & flow:
                    more = {x.id for x in ast.walk(src_) if isinstance(x, ast.Name) and isinstance(x.ctx, ast.Load)} - flow
                    if more:
                        flow |= more
                        changed_ = True
        starts = gc.edge_targets(gc.node_of(per_task), "iter")
        for nm_ in sorted(flow - own):
            binds = [n for n in inside if nm_ in stores(n)]
            if not binds:
                if nm_ in grown and any(isinstance(n, ast.Assign) and any(isinstance(t, ast.Name) and t.id == nm_ for t in n.targets) for n in walk_body(calc)):
                    return False, f"`{nm_}` is bound before the per-task loop and grown inside it (`{short(grown[nm_], 50)}`): what it has collected for one task is still in it for the next"
                continue
            bnodes = []
            for n in binds:
                try:
                    bnodes.append(gc.node_of(n))
                except KeyError:
                    raise CannotEval(f"binding of `{nm_}`")
            for x in inside:
                if isinstance(x, ast.Name) and x.id == nm_ and isinstance(x.ctx, ast.Load):
                    try:
                        xn = gc.node_of(x)
                    except KeyError:
                        raise CannotEval(f"read of `{nm_}`")
                    r_ = gc.reachable(starts, avoid=[b_ for b_ in bnodes if b_ is not xn], edge_ok=gc.normal_edge)
                    if xn.id in r_ and (xn not in bnodes or isinstance(xn.ast, (ast.Assign, ast.AnnAssign))):
                        return False, (f"`{short(source.enclosing_stmt(x), 60)}` reads `{nm_}`, which is bound inside the per-task loop but not on every way from the loop head to this read: "
                                       "for such a task it still holds what was computed for the task handled before it")
        return True, f"no local that flows into the batch ({', '.join(sorted(flow - own)) or '-'}) carries a value from one iteration of the per-task loop into the next"

    iso = None
    try:
        iso = isolation_on_values()
    except (CannotEval, RecursionError, ZeroDivisionError, TypeError, ValueError, KeyError, AttributeError, IndexError, StopIteration):
        pass
    iso_site = pend[0] if pend and mscope is calc else direct[ctt.name][0]
    iso_text = "the batch of a task holds that task's samples only: its new ones and the ones carried over under its own key (several tasks in one call, in every order)"
    iso_key = f"{_D}:ThroughputCalculator.calculate:batch-holds-only-the-task's-own-samples"
    if iso is not None:
        chk.ob("O6.1", iso_text, iso[0], iso_site, iso[1], key=iso_key)
    else:
        _decide(chk, "O6.1", iso_text, iso_site, isolation_structural, key=iso_key)
    # cleared once merged: either the merge site or the per-task routine resets unprocessed before appending again
    cleared = [n for n in walk_body(ctt) if isinstance(n, ast.Assign) and any(u(t) == f"{stats_var}.{U}" for t in n.targets) and _empty_list(n.value)
               and not in_loop(n) and g.dominated_by_nodes(Lh, [g.node_of(n)])]
    cleared += [n for n in walk_body(ctt) if isinstance(n, ast.Call) and isinstance(n.func, ast.Attribute) and n.func.attr == "clear" and u(n.func.value) == f"{stats_var}.{U}"
                and not in_loop(n) and g.dominated_by_nodes(Lh, [g.node_of(n)])]
    cleared += [n for n in walk_body(ctt) if ((isinstance(n, ast.Delete) and any(isinstance(t, ast.Subscript) and isinstance(t.slice, ast.Slice) and u(t.value) == f"{stats_var}.{U}" for t in n.targets)) or
                                              (isinstance(n, ast.Assign) and _empty_list(n.value) and any(isinstance(t, ast.Subscript) and isinstance(t.slice, ast.Slice) and u(t.value) == f"{stats_var}.{U}" for t in n.targets)))
                and not in_loop(n) and g.dominated_by_nodes(Lh, [g.node_of(n)])]
    cleared += reset_calls
    cleared += [n for n in walk_body(calc) if isinstance(n, ast.Assign) and any(isinstance(t, ast.Attribute) and t.attr == U for t in n.targets) and _empty_list(n.value)]
    pend_alias = {t.id for n in walk_body(calc) if isinstance(n, ast.Assign) and any(n.value is x for x in pend) for t in n.targets if isinstance(t, ast.Name)}
    cleared += [n for n in walk_body(calc) if isinstance(n, ast.Call) and isinstance(n.func, ast.Attribute) and n.func.attr == "clear" and
                (any(n.func.value is x for x in pend) or (isinstance(n.func.value, ast.Name) and n.func.value.id in pend_alias))]
    chk.ob("O6.1", "carried-over samples are not kept a second time (list cleared once merged)", bool(cleared), cleared[0] if cleared else ctt,
           "reset before the loop re-appends" if cleared else "a batch that completes no bucket re-appends carried-over samples to the list that still holds them: they are counted twice by the next batch",
           key=f"{_D}:ThroughputCalculator.calculate_task_throughput:unprocessed-cleared-once-merged")
    # the batch is sorted by time before processing; the per-task routine receives that list
    c0 = direct[ctt.name][0]
    batch_arg = source.bind_args(c0, ctt).get(batch)
    if batch_arg is None:
        raise AnchorMissing(f"the batch argument of the call of {ctt.name} in calculate()")
    bexpr = source.inline_node(batch_arg, cdefs)
    bvals = [bexpr]
    if isinstance(bexpr, ast.Name):
        # bound on several paths (e.g. one sort per arm): every binding counts
        bvals = [source.inline_node(n.value, cdefs) for n in walk_body(calc) if isinstance(n, ast.Assign) and any(isinstance(t, ast.Name) and t.id == bexpr.id for t in n.targets)]
    in_place = next((n for n in walk_body(calc) if isinstance(bexpr, ast.Name) and isinstance(n, ast.Call) and isinstance(n.func, ast.Attribute) and n.func.attr == "sort" and isinstance(n.func.value, ast.Name)
                     and n.func.value.id == bexpr.id), None)
    sorts = [in_place] * len(bvals) if in_place is not None else [v if isinstance(v, ast.Call) and dotted(v.func) == "sorted" else None for v in bvals]
    if sc is not None:
        ok, detail = True, "ascending absolute_time in all three scenarios (new samples arriving out of order, carried-over samples in between)"
        for name, old_, new_, got in sc:
            ts = [x.fields[_ABS] for x in got]
            if ts != sorted(ts) and ok:
                ok, detail = False, f"{name}: the per-task routine receives the samples in the order t={ts} (new samples arrived as t={[x.fields[_ABS] for x in new_]}, carried over: t={[x.fields[_ABS] for x in old_]})"
        chk.ob("O6.1", "batch sorted by absolute time", ok, c0, detail, key=f"{_D}:ThroughputCalculator.calculate:batch-sorted-by-absolute-time")
    elif not bvals or any(sc is None and any(isinstance(x, ast.Call) and dotted(x.func) not in ("list", "tuple", "itertools.chain", "chain") for x in ast.walk(v)) for sc, v in zip(sorts, bvals)):
        chk.unknown("O6.1", f"the batch handed to {ctt.name} is `{short(bexpr, 60)}`: cannot tell whether it is sorted by time", c0)
    else:
        def sorted_by_time():
            for srt, v in zip(sorts, bvals):
                if srt is None:
                    return False, f"`{short(v, 60)}` is handed over unsorted"
                kf = source.arg_of(srt, None, "key")
                rev = source.arg_of(srt, None, "reverse")
                if rev is not None and not (source.is_const(rev) and not rev.value):
                    return False, f"reverse={u(rev)}"
                if kf is None:
                    return False, "no sort key"
                if isinstance(kf, ast.Name) and kf.id in cdefs:
                    kf = cdefs[kf.id]
                named = H.funcs.get(kf.id) if isinstance(kf, ast.Name) else (H.methods.get(kf.attr) if isinstance(kf, ast.Attribute) and dotted(kf.value) in ("self", "cls", TC.name) else None)
                if named is not None and _returned_expr(named) is not None and len([p_ for p_ in params_of(named) if p_ not in ("self", "cls")]) == 1:
                    kf = ast.Lambda(args=ast.arguments(posonlyargs=[], args=[ast.arg(arg=[p_ for p_ in params_of(named) if p_ not in ("self", "cls")][0])], kwonlyargs=[], kw_defaults=[], defaults=[]),
                                    body=_returned_expr(named))
                if isinstance(kf, ast.Lambda) and len(kf.args.args) == 1:
                    a_, b_ = _sample(absolute_time=3.0, relative_time=9.0, time_period=1.0), _sample(absolute_time=8.0, relative_time=1.0, time_period=7.0)
                    va, vb = minieval.ev(kf.body, {kf.args.args[0].arg: a_}), minieval.ev(kf.body, {kf.args.args[0].arg: b_})
                    if (va, vb) != (3.0, 8.0):
                        return False, f"key maps samples at t=3 / t=8 to {va!r} / {vb!r}"
                elif isinstance(kf, ast.Call) and (dotted(kf.func) or "").split(".")[-1] == "attrgetter" and len(kf.args) == 1 and isinstance(kf.args[0], ast.Constant):
                    if kf.args[0].value != _ABS:
                        return False, f"key {u(kf)}"
                else:
                    raise CannotEval(f"sort key {u(kf)}")
            return True, f"{len(sorts)} sort(s) by {_ABS}"

        # report at the statement of the analysed tree (the resolved copies carry no position)
        b_site = in_place if in_place is not None else (cdefs[batch_arg.id] if isinstance(batch_arg, ast.Name) and batch_arg.id in cdefs else
                                                        next((n.value for n in walk_body(calc) if isinstance(bexpr, ast.Name) and isinstance(n, ast.Assign) and any(isinstance(t, ast.Name) and t.id == bexpr.id for t in n.targets)), batch_arg))
        _decide(chk, "O6.1", "batch sorted by absolute time", b_site, sorted_by_time)
    lazy_batch_rule(chk, "O6.1", drv, decided=sc is not None)
    # every sample of the batch lands in its task's group, wherever it stands in the batch (samples of several tasks / workers are interleaved): the grouping loop appends each
    # sample unconditionally; itertools.groupby only groups CONSECUTIVE elements and is accepted only over input sorted by the same key
    sp = params_of(calc)[1]
    scopes = [(calc, sp)]
    for c in walk_body(calc):
        fn = H.callee(c) if isinstance(c, ast.Call) else None
        if fn is not None and fn not in (ctt, mtt, calc):
            for p, a_ in source.bind_args(c, fn).items():
                if isinstance(a_, ast.Name) and a_.id == sp:
                    scopes.append((fn, p))
    ok, site, detail, located, skips, fresh_groups = False, calc, "no loop over the batch that appends each sample to its task's group", False, False, True
    for fn, p in scopes:
        gg = cfg_of(fn)
        for lp in [n for n in walk_body(fn) if isinstance(n, ast.For) and isinstance(n.iter, ast.Name) and n.iter.id == p and isinstance(n.target, ast.Name)]:
            sv_ = lp.target.id
            gdefs = {n.targets[0].id: n.value for n in ast.walk(lp) if isinstance(n, ast.Assign) and len(n.targets) == 1 and isinstance(n.targets[0], ast.Name)}
            apps_ = [c for c in ast.walk(lp) if isinstance(c, ast.Call) and last_attr(c.func) == "append" and len(c.args) == 1 and u(source.inline_node(c.args[0], gdefs)) == sv_]

            def group_key(recv):
                if isinstance(recv, ast.Subscript):
                    return recv.slice
                if isinstance(recv, ast.Call) and isinstance(recv.func, ast.Attribute) and recv.func.attr == "setdefault" and len(recv.args) == 2 and _empty_list(recv.args[1]):
                    return recv.args[0]
                return None

            apps_ = [c for c in apps_ if group_key(c.func.value) is not None]
            if not apps_:
                continue
            located = True
            ok = len(apps_) == 1 and _every_iteration_passes(gg, lp, [gg.node_of(apps_[0])]) and source.inline(group_key(apps_[0].func.value), gdefs) == f"{sv_}.task" \
                and not any(isinstance(x, (ast.Break, ast.Return)) for x in ast.walk(lp))
            # some way through an iteration appends the sample to no group at all (or the loop can end early)
            opens_ = [n for n in ast.walk(lp) if isinstance(n, ast.Assign) and any(isinstance(t, ast.Subscript) for t in n.targets) and isinstance(n.value, (ast.List, ast.Tuple))
                      and any(u(source.inline_node(x, gdefs)) == sv_ for x in n.value.elts)]
            skips = not _every_iteration_passes(gg, lp, [gg.node_of(a_) for a_ in apps_ + opens_]) or any(isinstance(x, (ast.Break, ast.Return)) for x in ast.walk(lp))
            site, detail = lp, short(apps_[0], 60)
            # where the list a sample is appended to comes from: one made for THIS key (setdefault(key, []), `G[key] = []` inside the loop, a defaultdict(list)); anything else
            # (lists made before the loop, dict.fromkeys(keys, []), [[]] * n ...) may be one object under several keys - only the evaluation on values can tell
            gname = apps_[0].func.value.value if isinstance(apps_[0].func.value, ast.Subscript) else None
            fresh_groups = (not isinstance(apps_[0].func.value, ast.Subscript)
                            or any(isinstance(n, ast.Assign) and _empty_list(n.value) and any(isinstance(t, ast.Subscript) and u(t.value) == u(gname) for t in n.targets) for n in ast.walk(lp))
                            or any(isinstance(n, ast.Assign) and any(u(t) == u(gname) for t in n.targets) and isinstance(n.value, ast.Call) and last_attr(n.value.func) == "defaultdict"
                                   and len(n.value.args) == 1 and dotted(n.value.args[0]) == "list" for n in walk_body(fn)))
    gb = [c for c in ast.walk(calc) if isinstance(c, ast.Call) and dotted(c.func) in ("itertools.groupby", "groupby")]
    gb_unclear = False
    if gb and not ok:
        g_in = source.inline_node(gb[0].args[0], local_defs(calc)) if gb[0].args else None
        g_sorted = isinstance(g_in, ast.Call) and dotted(g_in.func) == "sorted"
        srt_in = g_sorted and u(source.arg_of(g_in, None, "key")) == u(source.arg_of(gb[0], 1, "key"))
        # sorted by ANOTHER key (e.g. the task's name): whether equal group keys end up next to each other is not visible in the spelling
        gb_unclear = bool(g_sorted and not srt_in) or not (g_sorted or (isinstance(g_in, ast.Name) and g_in.id == sp))
        ok, located, site = bool(srt_in), True, gb[0]
        detail = short(gb[0], 70) + ("" if ok else " — groupby over the batch in arrival order: a later run of the same task overwrites the earlier one, those samples are never counted")
    # decided on VALUES where calculate() can be interpreted: the samples of two new tasks, interleaved, differing in every field a filter might look at (a request with 0
    # operations, both sample types, several clients, zero and non-zero periods); every one of them must reach the per-task routines exactly once, in a batch of its own task
    def grouping_on_values():
        spec = (("t", 1.0, 5, 0, 0), ("u", 2.0, 100000, 1, 7), ("t", 3.0, 0, 0, 1), ("u", 4.0, 1, 1, 0), ("t", 5.0, 5, 1, 7))
        tasks_by_name = {"t": _Task(name="t"), "u": _Task(name="u")}
        stream = [_sample(task=tasks_by_name[t_], absolute_time=a_, relative_time=a_ - 1.0, total_ops=o_, sample_type=y_, client_id=c_, time_period=0.0 if i_ == 0 else 0.5) for i_, (t_, a_, o_, y_, c_) in enumerate(spec)]
        seen = handed_over({}, list(stream))
        bs = [(b_.get(key_param) if fn_ is ctt else None, v_) for fn_, b_ in seen for p_, v_ in b_.items() if (p_ == batch if fn_ is ctt else isinstance(v_, (list, tuple, _Iter)))]
        if not bs or any(not isinstance(v_, (list, tuple)) or not all(isinstance(x, Record) and "task" in x.fields for x in v_) for _, v_ in bs):
            raise CannotEval("the batches handed to the per-task routines are not lists of samples")
        for s_ in stream:
            k_ = sum(1 for _, v_ in bs for x in v_ if x is s_)
            if k_ != 1:
                return False, (f"of five interleaved samples of two tasks the one of task {s_.fields['task']!r} at t={s_.fields[_ABS]} ({s_.fields[_OPS]} ops) reaches the per-task routines "
                               f"{k_} times: " + ("that request is part of no throughput value" if k_ == 0 else "its operations are counted more than once"))
        for k_, v_ in bs:
            tasks_ = {x.fields["task"] for x in v_}
            if len(tasks_) > 1 or (k_ is not None and tasks_ and k_ not in tasks_):
                return False, f"a batch with samples of task(s) {sorted(tasks_)} is handed to the per-task routine" + (f" under the key {k_!r}" if k_ is not None else "")
        return True, f"five interleaved samples of two tasks reach the per-task routines exactly once each, grouped by task ({detail if located else 'decided on values'})"

    gv = None
    try:
        gv = grouping_on_values()
    except (CannotEval, RecursionError, ZeroDivisionError, TypeError, ValueError, KeyError, AttributeError, IndexError):
        pass
    gkey = f"{_D}:ThroughputCalculator.calculate:grouping-keeps-every-sample"
    if gv is not None and not gv[0]:
        chk.ob("O6.1", "grouping by task keeps every sample of the batch (interleaved tasks included)", False, site, gv[1], key=gkey)
    elif gv is not None and (ok or not located or not skips):
        chk.ob("O6.1", "grouping by task keeps every sample of the batch (interleaved tasks included)", True, site, gv[1], key=gkey)
    elif gv is not None:
        chk.unknown("O6.1", f"the grouping loop `{short(site, 50)}` has a way through an iteration that puts the sample into no group; the representative samples were all grouped: "
                            "the condition was not recognised", site)
    elif located and gb_unclear and not ok:
        chk.unknown("O6.1", f"`{short(site, 70)}`: whether the input of groupby is ordered by the grouping key was not recognised", site)
    elif located and ok and not fresh_groups:
        chk.unknown("O6.1", f"`{detail}`: where the list of a task's group is created was not recognised (one fresh list per task key? a list shared by several keys hands every task the samples "
                            "of all tasks of the batch) and calculate() could not be evaluated on values", site)
    elif located:
        chk.ob("O6.1", "grouping by task keeps every sample of the batch (interleaved tasks included)", ok, site, detail, key=gkey)
    else:
        chk.unknown("O6.1", "the place where calculate() groups the samples of the batch by task was not recognised (loop that appends each sample to the group of <sample>.task, or groupby)", calc)
    # the per-task state (carried total, start time, sticky sample type) lives as long as the calculator: entries are created on first sight and never removed
    rem = [n for f_ in tm.values() for n in walk_body(f_) if
           (isinstance(n, ast.Delete) and any(isinstance(t, ast.Subscript) and is_self_attr(t.value, A) for t in n.targets)) or
           (isinstance(n, ast.Call) and isinstance(n.func, ast.Attribute) and n.func.attr in ("pop", "popitem", "clear") and is_self_attr(n.func.value, A)) or
           (isinstance(n, ast.Assign) and any(is_self_attr(t, A) for t in n.targets) and source.enclosing_func(n).name != "__init__")]
    chk.ob("O6.1", "per-task state is never dropped while the calculator lives", not rem, rem[0] if rem else calc,
           "" if not rem else f"`{short(rem[0], 60)}`: a task that pauses for one batch restarts from count 0 while its start time is kept: later values are (operations since the eviction) / (time since task start)",
           key=f"{_D}:ThroughputCalculator:task-state-never-dropped")

    # ---- O6.2 monotone interval / safe division ------------------------------------------------------------------------------
    chk.rule("O6.2", "interval := max(t - start, interval); throughput is evaluated only under interval > 0", 3, "division by zero / negative or shrinking interval")

    def call_as_at(c, p_sample, rec, **sample_fields):
        """interpret the state method called at site c on `rec`, the argument that carries the sample (field) taking the given value."""
        fn = sm[c.func.attr]
        s = _sample(**sample_fields)
        args = {}
        for p, a_ in source.bind_args(c, fn).items():
            args[p] = minieval.ev(res(a_), {svar: s})
        return M.call(rec, fn.name, **args)

    def interval_formula():
        c, p = ui_calls[0]
        for s0, i0, t in ((10.0, 0, 12.0), (10.0, 5.0, 12.0), (10.0, 5.0, 20.0), (10.0, 3.0, 9.0), (10.0, 0, 10.0)):
            r = fresh(**{S: s0, I: i0})
            call_as_at(c, p, r, absolute_time=t)
            if not _close(r.fields.get(I), max(t - s0, i0)):
                return False, f"start={s0} interval={i0} sample at t={t}: interval becomes {r.fields.get(I)!r}, max(t - start, interval) is {max(t - s0, i0)!r}"
        return True, "interval after a sample at t equals max(t - start, interval) on 5 representative states"

    _decide(chk, "O6.2", "interval = max(t - start_time, interval)", ui, interval_formula)
    others = [n for n in ast.walk(TS) if isinstance(n, (ast.Assign, ast.AugAssign)) and any(is_self_attr(t, I) for t in (n.targets if isinstance(n, ast.Assign) else [n.target]))
              and source.enclosing_func(n) is not None and source.enclosing_func(n) is not ui and source.enclosing_func(n).name not in ("__init__", "__post_init__")]
    others += [n for f_ in tm.values() for n in walk_body(f_) if isinstance(n, (ast.Assign, ast.AugAssign)) and
               any(isinstance(t, ast.Attribute) and t.attr == I and isinstance(t.value, ast.Name) and t.value.id == stats_var for t in (n.targets if isinstance(n, ast.Assign) else [n.target]))]
    chk.ob("O6.2", "no other writer of interval", not others, others[0] if others else ui, "")
    # the conditions under which a value is emitted - inside the loop (bucket complete) and after it (final-sample rule) - are decided on values: the state predicates they call
    # are interpreted, so it does not matter whether the test is spelled in the predicate, inline, or as a guard clause
    emit_in = [e for e in emits if in_loop(e.node)]
    emit_out = [e for e in emits if not in_loop(e.node)]
    if not emit_in or not emit_out:
        raise AnchorMissing(f"one emit site inside the sample loop (bucket completion) and one after it (final-sample rule) in {ctt.name}")
    emit_lists = {e.node.func.value.id for e in emits if isinstance(e.node, ast.Call) and isinstance(e.node.func.value, ast.Name)} | \
                 {e.node.target.id for e in emits if isinstance(e.node, ast.AugAssign) and isinstance(e.node.target, ast.Name)}

    def cond_at(site, which="all"):
        """the condition under which `site` runs as a function of (state, operations of a one-sample batch, has this call emitted a value already). which: 'state' = only the
        conjuncts that consult nothing but the per-task state, 'other' = the remaining ones."""
        raw = pat.fact_nodes(site)

        def state_only(f_):
            return {x.id for x in ast.walk(f_) if isinstance(x, ast.Name)} <= {stats_var}

        sel = [f_ for f_ in raw if which == "all" or state_only(res(f_)) == (which == "state")]
        facts = [res(f_) for f_ in sel]

        def f(r, ops=5, emitted=False, **sample_fields):
            s = _sample(total_ops=ops, **sample_fields)
            env = {stats_var: r, batch: [s]}
            if cvar is not None:
                env[cvar] = (r.fields.get(tot) or 0) + ops
            else:
                r.fields[C] = (r.fields.get(tot) or 0) + ops
            env.update({nm_: s for nm_ in sampled})
            env.update({nm_: ([("value",)] if emitted else []) for nm_ in emit_lists})
            return all(bool(M.ev(f_, dict(env))) for f_ in facts)

        f.text = " and ".join(u(x) for x in sel) or "<unconditional>"
        names = {pred_name(x) for x in raw if pred_name(x) is not None}
        f.node = sm[next(iter(names))] if len(names) == 1 else site
        return f

    def false_at_interval_zero(c):
        """whenever the condition holds the elapsed interval is positive AT THAT POINT. For a pure predicate that is 'false on every state with interval 0'; a condition that itself hands
        the sample to the state (`if current.add_sample(sample):`) is judged on the state it leaves behind, for a sample after the task's start and for one AT the start (elapsed 0)."""
        def f():
            for ops in (0, 5):
                for at in (12.0, None):
                    for r in variants(**{I: 0}):
                        before = show(r)
                        t_ = at if at is not None or not isinstance(r.fields.get(S), (int, float)) else r.fields[S]
                        holds = c(r, ops, absolute_time=t_ if t_ is not None else 10.0)
                        after = r.fields.get(I)
                        if holds and not (isinstance(after, (int, float)) and not isinstance(after, bool) and after > 0):
                            return False, f"`{c.text}` holds at interval 0 for {before}: the throughput read behind it divides by zero"
            return True, f"`{c.text}` is false whenever interval == 0"
        return f

    fin_out = [c for c in fin_calls if not in_loop(c)]
    final_site = fin_out[0] if fin_out else emit_out[0].node
    for what, site in (("can_calculate_throughput", emit_in[0].node), ("can_add_final_throughput_sample", final_site)):
        c = cond_at(site)
        _decide(chk, "O6.2", f"{what} requires interval > 0", c.node, false_at_interval_zero(c))
    # throughput property read only where interval > 0 is known
    P_names = {e.elts[3].attr for e in emits if isinstance(e.elts[3], ast.Attribute) and isinstance(e.elts[3].value, ast.Name) and e.elts[3].value.id == stats_var and e.elts[3].attr in sm}
    P_names |= {e.elts[3].func.attr for e in emits if on_stats(e.elts[3]) and not e.elts[3].args}
    divides = {nm_ for nm_, f_ in sm.items() if any(isinstance(x, ast.BinOp) and isinstance(x.op, (ast.Div, ast.FloorDiv)) for x in ast.walk(f_))}
    tp_reads = [n for n in walk_body(ctt) if isinstance(n, ast.Attribute) and isinstance(n.ctx, ast.Load) and n.attr in (P_names | divides) and isinstance(n.value, ast.Name) and n.value.id == stats_var]
    # a read that only happens inside an expression helper of an emit site counts at that site
    tp_reads += [e.node for e in emits if any(isinstance(x, ast.Attribute) and x.attr in (P_names | divides) and isinstance(x.value, ast.Name) and x.value.id == stats_var for x in ast.walk(e.tup))
                 and not any(any(n is x for x in ast.walk(e.node)) for n in tp_reads)]
    for n in tp_reads:
        _decide(chk, "O6.2", "throughput read only under a can_* guard", n, false_at_interval_zero(cond_at(n)))
    if not tp_reads:
        chk.unknown("O6.2", f"no read of the state's throughput in {ctt.name}", ctt)

    # ---- O6.3 sample type only rises -------------------------------------------------------------------------------------------
    chk.rule("O6.3", "the per-task sample type only rises (guarded by <); the has-value flag is cleared on a rise and set by finish; the emitted sample type is the "
             "per-task (monotone) type; the final-sample rule runs after the loop", 5,
             "successive throughput values go back to warm-up, or a task with normal samples gets no normal throughput value")

    def type_cases():
        c, p = mu_calls[0]
        out = []
        for cur, new, fl in itertools.product((0, 1), (0, 1), (False, True)):
            r = fresh(**{T_: cur, F: fl})
            call_as_at(c, p, r, sample_type=new)
            out.append((cur, new, fl, r.fields.get(T_), r.fields.get(F)))
        return out

    def type_only_rises():
        for cur, new, fl, t_after, _ in type_cases():
            if t_after != max(cur, new):
                return False, f"task type {cur}, sample of type {new}: the task type becomes {t_after!r} (0 = warm-up, 1 = normal), expected {max(cur, new)}"
        return True, "task type after a sample == max(task type, sample type) for all four combinations"

    def flag_cleared_on_rise():
        for cur, new, fl, _, f_after in type_cases():
            if new > cur and f_after is not False:
                return False, f"type rises {cur} -> {new} with flag {fl}: flag is {f_after!r} afterwards, so the new type may never get a value"
        return True, "flag is False after every rise"

    _decide(chk, "O6.3", "sample type replaced only by a greater one", mu, type_only_rises)
    _decide(chk, "O6.3", "has-value flag cleared on a rise", mu, flag_cleared_on_rise)
    _decide(chk, "O6.3", "has-value flag set by finish", fb, after_finish(F, True))

    def writes(attr, bases):
        return [n for n in ast.walk(drv.tree) if isinstance(n, (ast.Assign, ast.AugAssign)) and source.enclosing_class(n) in (TS, TC)
                and any(isinstance(t, ast.Attribute) and t.attr == attr and isinstance(t.value, ast.Name) and t.value.id in bases for t in (n.targets if isinstance(n, ast.Assign) else [n.target]))]

    other_flag = [n for n in writes(F, ("self", stats_var)) if source.enclosing_func(n) not in (mu, fb) and source.enclosing_func(n) is not None and source.enclosing_func(n).name not in ("__init__", "__post_init__")]
    chk.ob("O6.3", "no other writer of the has-value flag", not other_flag, other_flag[0] if other_flag else TS, "")
    other_st = [n for n in writes(T_, ("self", stats_var)) if source.enclosing_func(n) is not mu and source.enclosing_func(n) is not None and source.enclosing_func(n).name not in ("__init__", "__post_init__")]
    chk.ob("O6.3", "no other writer of the per-task sample type", not other_st, other_st[0] if other_st else TS, "")
    mcalls = [c for c in stat_calls if sm[c.func.attr] is mu_site]
    ok = len(mcalls) == 1 and len(mu_calls) == 1 and mu_calls[0][0] is mcalls[0] and source.enclosing(mcalls[0], (ast.For, ast.While)) is L and _every_iteration_passes(g, L, [g.node_of(mcalls[0])])
    chk.ob("O6.3", "type updated from every sample", ok, mcalls[0] if mcalls else L, "")
    for e in emits:
        chk.ob("O6.3", "emitted sample type is the per-task type", is_field(e.elts[2], stats_var, T_), e.node, f"3rd element: {u(e.elts[2])}")
    # final-sample rule after the loop
    ok = False
    if fin_out:
        fo = g.node_of(fin_out[0])
        ok = g.dominated_by_nodes(fo, [Lh]) and not g.path_exists(fo, Lh)
    chk.ob("O6.3", "final-sample rule after the loop", ok, final_site,
           "" if ok else ("the value emitted after the loop is not preceded by a call of the bucket-finishing routine" if not fin_out else "the bucket-finishing call of the final-sample rule can run before / inside the loop"))
    c_state, c_other = cond_at(final_site, "state"), cond_at(final_site, "other")

    def final_rule_guards():
        for ops, emitted in itertools.product((0, 5), (False, True)):
            for r in variants(**{I: 2.5, F: False}):
                if not c_other(r, ops, emitted):
                    return False, f"additional condition(s) `{c_other.text}`: false for a batch of one sample with {ops} operations" + (" after a bucket was closed in the same call" if emitted else "") + \
                        f", state {show(r)}: a task whose pending samples carry 0 ops, or whose count did not grow, gets no value of its sample type"
        return True, f"besides the state predicate: `{c_other.text}` (true for every non-empty batch)"

    _decide(chk, "O6.3", "the final-sample rule depends on nothing but the per-task predicate (and a sample having been seen)", final_site, final_rule_guards,
            key=f"{_D}:calculate_task_throughput:final-rule-guards")

    def final_table(exact):
        def f():
            for iv, fl in itertools.product((0, 2.5), (False, True)):
                for r in variants(**{I: iv, F: fl}):
                    got, exp = c_state(r), (iv > 0 and not fl)
                    if (got != exp) if exact else (fl and got):
                        return False, f"`{c_state.text}` is {got} for {show(r)}; positive elapsed time and no value of the current type yet is {exp}"
            return True, f"`{c_state.text}` == (interval > 0 and not flag) on all representative states" if exact else f"`{c_state.text}` is false whenever the current type already has a value"
        return f

    _decide(chk, "O6.3", "predicate == positive elapsed time and no value of the current sample type yet", c_state.node, final_table(True), key=f"{_D}:TaskStats.can_add_final_throughput_sample:exact")
    _decide(chk, "O6.3", "final sample only when the current type has no value yet", c_state.node, final_table(False))

    # ---- O6.5 formula identity -------------------------------------------------------------------------------------------------------
    chk.rule("O6.5", "throughput == carried_total / interval; start == first.absolute_time - first.time_period, fixed at first sight of the task; emitted value is <stats>.throughput", 4,
             "any task: the reported number is not ops/elapsed")
    P = sorted(P_names)[0] if len(P_names) == 1 else (sorted(divides & M.props)[0] if len(divides & M.props) == 1 else None)
    if P is None:
        raise AnchorMissing(f"the throughput property of {TS.name} (read by the emit sites)")

    def formula():
        for t0, i0 in ((10, 4.0), (7, 2.0), (0, 3.0)):
            for r in variants(**{tot: t0, I: i0}):
                for k_, v_ in list(r.fields.items()):
                    if isinstance(v_, (int, float)) and not isinstance(v_, bool) and k_ not in (tot, I):
                        r.fields[k_] = v_ + 13  # no other field coincides with the interval or the total
                got = M.call(r, P)
                if not _close(got, t0 / i0):
                    return False, f"total={t0} interval={i0}: {P} is {got!r}, total / interval is {t0 / i0!r}"
        return True, f"{P} == total / interval on representative states"

    _decide(chk, "O6.5", "throughput = total_count / interval", sm[P], formula)
    # start fixed at first sight
    cgf = ctor_fn
    batch_c = batch if cgf is ctt else None
    key_c = key_param if cgf is ctt else None
    if cgf is not ctt:
        for c in walk_body(ctt):
            if isinstance(c, ast.Call) and H.callee(c) is cgf:
                for p, a_ in source.bind_args(c, cgf).items():
                    if isinstance(a_, ast.Name) and a_.id == batch:
                        batch_c = p
                    if isinstance(a_, ast.Name) and a_.id == key_param:
                        key_c = p
    ctor_stmt = source.enclosing_stmt(ctor)

    def start_value():
        if batch_c is None:
            raise CannotEval(f"the batch is not handed to {cgf.name} by name")
        e = source.inline_node(cb[start_p], {k_: v_ for k_, v_ in cdefs_ctor.items() if k_ != batch_c})
        for first, second in ((_sample(absolute_time=12.0, time_period=0.5), _sample(absolute_time=20.0, time_period=3.0)), (_sample(absolute_time=7.0, time_period=2.0), _sample(absolute_time=7.5, time_period=0.25))):
            try:
                got = minieval.ev(e, {batch_c: [first, second]})
            except CannotEval:
                if rat_equal(e, parse_expr(f"{batch_c}[0].{_ABS} - {batch_c}[0].{_PERIOD}")):
                    continue
                raise
            exp = first.fields[_ABS] - first.fields[_PERIOD]
            if not _close(got, exp):
                return False, f"`{short(e, 80)}`: first sample at t={first.fields[_ABS]} with period {first.fields[_PERIOD]} gives start {got!r}, expected {exp!r}"
        # first sight: created when the task has no state, not when it has
        stored_by_setdefault = any(isinstance(a_, ast.Call) and isinstance(a_.func, ast.Attribute) and a_.func.attr == "setdefault" and is_self_attr(a_.func.value, A) for a_ in source.ancestors(ctor))
        if stored_by_setdefault:
            return True, "created through setdefault: an existing entry is kept"
        if key_c is None:
            raise CannotEval(f"the task key is not handed to {cgf.name} by name")
        facts = pat.fact_nodes(ctor_stmt)
        outer = next((a_ for a_ in source.ancestors(ctor_stmt) if isinstance(a_, ast.If)), None)

        def under(state):
            env = {"self": Record(**{A: dict(state)}), key_c: "t"}
            vals = []
            for f_ in facts:
                m_ = {}
                for x in ast.walk(f_):
                    if isinstance(x, ast.Name) and isinstance(x.ctx, ast.Load) and x.id not in env and x.id not in m_:
                        d = _reaching(cgf, x.id, outer if outer is not None else ctor_stmt)
                        if d is not None:
                            m_[x.id] = d
                e_ = _subst(f_, m_)
                if not any(is_self_attr(x, A) for x in ast.walk(e_)):
                    continue  # a condition that does not consult the per-task state says nothing about first sight (e.g. an early return for an empty batch)
                vals.append(bool(minieval.ev(e_, dict(env))))
            return vals

        if not under({}):
            return False, f"`{short(ctor, 60)}` under {[u(f_) for f_ in facts]}: none of the conditions consults self.{A}, the state of a known task is replaced"
        new_task = all(under({}))
        known_task = [all(under({"t": fresh(**{U: pend_})})) for pend_ in ([], [_sample()])]  # a task that has state, with and without pending samples
        ok_ = new_task and not any(known_task)
        return ok_, f"`{short(ctor, 60)}` under {[u(f_) for f_ in facts]}: runs for a new task: {new_task}, runs for a task that has state: {any(known_task)}"

    _decide(chk, "O6.5", "start fixed at first sight: first.absolute_time - first.time_period", ctor, start_value)
    st_w = [n for n in ast.walk(drv.tree) if isinstance(n, (ast.Assign, ast.AugAssign)) and any(isinstance(t, ast.Attribute) and t.attr == S for t in (n.targets if isinstance(n, ast.Assign) else [n.target]))
            and source.enclosing_class(n) in (TS, TC) and source.enclosing_func(n) is not None and source.enclosing_func(n).name not in ("__init__", "__post_init__")]
    chk.ob("O6.5", "start_time never rewritten", not st_w, st_w[0] if st_w else TS, "")
    for e in emits:
        v = e.elts[3]
        ok = is_field(v, stats_var, P) if P in M.props else (on_stats(v, {P}) and not v.args)
        chk.ob("O6.5", "emitted value is <stats>.throughput", ok, e.node, f"4th element: {u(v)}")
    # emit follows finish: on every way to the emit (from the function entry, and from the loop head of this iteration) a bucket has just been finished
    fnodes = [g.node_of(c) for c in fin_calls]
    for e in emits:
        en = g.node_of(e.node)
        ok = bool(fnodes) and g.dominated_by_nodes(en, fnodes) and en.id not in g.reachable([Lh], avoid=fnodes)
        chk.ob("O6.5", "value emitted right after its bucket is finished", ok, e.node, "")

    # ---- O6.4 pass-through and unit -----------------------------------------------------------------------------------------------------
    chk.rule("O6.4", "runner-supplied throughput is passed through unchanged (dispatch on `is None`, never truthiness: 0 is a legitimate value); every emit site builds the unit as '<ops unit>/s'", 4,
             "a runner reporting throughput 0 (or any value): rally recomputes and reports something else")
    mloops = [n for n in walk_body(mtt) if isinstance(n, ast.For)]
    mvars = set()
    for e in memits:
        if isinstance(e.node, (ast.ListComp, ast.GeneratorExp)):
            mvars |= {x.id for gen in e.node.generators for x in ast.walk(gen.target) if isinstance(x, ast.Name)}
        else:
            lp = source.enclosing(e.node, ast.For)
            if lp is not None and source.enclosing_func(lp) is mtt:
                mvars |= {x.id for x in ast.walk(lp.target) if isinstance(x, ast.Name)}
    tp_field = _TP  # the runner-supplied value: vocabulary of the property (a field of Sample, checked above)
    # dispatch in calculate(): decided on values of the runner-supplied throughput
    m0 = direct[mtt.name][0]
    facts_c = [f_ for f_ in pat.fact_nodes(c0, stop=per_task)]
    facts_m = [f_ for f_ in pat.fact_nodes(m0, stop=per_task)]
    inl_defs = {k_: v_ for k_, v_ in cdefs.items()}
    rel_c = [f_ for f_ in facts_c if any(isinstance(x, ast.Attribute) and x.attr == tp_field for x in ast.walk(source.inline_node(f_, inl_defs, no_calls=True)))]
    rel_m = [f_ for f_ in facts_m if any(isinstance(x, ast.Attribute) and x.attr == tp_field for x in ast.walk(source.inline_node(f_, inl_defs, no_calls=True)))]
    if not rel_c and not rel_m:
        raise AnchorMissing(f"dispatch on the runner-supplied {tp_field} of the batch in calculate() (condition that selects {ctt.name} / {mtt.name})")
    d_site = next((a_ for a_ in source.ancestors(c0) if isinstance(a_, ast.If) and any(x is f_ or x is getattr(f_, "operand", None) for f_ in rel_c + rel_m for x in ast.walk(a_.test))), source.enclosing_stmt(c0))
    batch_names = {a_.id for c_, fn_ in ((c0, ctt), (m0, mtt)) for a_ in list(c_.args) + [k.value for k in c_.keywords] if isinstance(a_, ast.Name) and a_.id not in (key_param,)}

    def routed(v):
        """(calculate taken, pass-through taken) when every sample of the batch carries runner throughput v."""
        env = {nm_: [_sample(throughput=v), _sample(throughput=v, absolute_time=13.0)] for nm_ in batch_names}
        tc = all(bool(minieval.ev(source.inline_node(f_, inl_defs, no_calls=True), dict(env))) for f_ in rel_c) if rel_c else None
        tm_ = all(bool(minieval.ev(source.inline_node(f_, inl_defs, no_calls=True), dict(env))) for f_ in rel_m) if rel_m else None
        return tc, tm_

    def none_not_truthiness():
        r = {repr(v): routed(v) for v in (None, 0, 0.0, 15000.0)}
        same = r["0"] == r["0.0"] == r["15000.0"]
        return same and r["None"] != r["15000.0"], f"`{' / '.join(sorted({u(f_) for f_ in rel_c + rel_m}))}`: (calculate, pass-through) taken for throughput None / 0 / 15000.0: {r['None']} / {r['0']} / {r['15000.0']}" + \
            ("" if same else " — a runner-supplied 0 is treated as absent")

    def none_to_calculate():
        n_, v_ = routed(None), routed(15000.0)
        ok_ = n_[0] in (True,) and n_[1] in (False, None) and v_[1] in (True,) and v_[0] in (False, None) if (rel_c and rel_m) else \
            ((n_[0] is True and v_[0] is False) if rel_c else (n_[1] is False and v_[1] is True))
        return ok_, f"None -> (calculate, pass-through) = {n_}; 15000.0 -> {v_}"

    _decide(chk, "O6.4", "dispatch tests `throughput is None`", d_site, none_not_truthiness)
    _decide(chk, "O6.4", "None -> calculate, value -> pass-through", d_site, none_to_calculate)
    # pass-through: one value per sample, built from that sample
    mbatch = [p for p in params_of(mtt)[1:]]
    ok = len(memits) == 1
    if ok:
        e = memits[0]
        if isinstance(e.node, (ast.ListComp, ast.GeneratorExp)):
            gens = e.node.generators
            ok = len(gens) == 1 and not gens[0].ifs and isinstance(gens[0].iter, ast.Name) and gens[0].iter.id in mbatch
        else:
            lp = source.enclosing(e.node, ast.For)
            gm = cfg_of(mtt)
            ok = lp is not None and source.enclosing_func(lp) is mtt and len(mloops) == 1 and isinstance(lp.iter, ast.Name) and lp.iter.id in mbatch and _every_iteration_passes(gm, lp, [gm.node_of(e.node)]) \
                and not any(isinstance(x, (ast.Break, ast.Return)) for x in ast.walk(lp))
    # a way through the pass-through routine that produces no value for some sample (filter in the comprehension, conditional append, early exit)
    filtered = any(isinstance(e_.node, (ast.ListComp, ast.GeneratorExp)) and any(gen.ifs for gen in e_.node.generators) for e_ in memits) \
        or any(isinstance(x, (ast.Break, ast.Continue)) for x in ast.walk(mtt)) or len([x for x in walk_body(mtt) if isinstance(x, ast.Return)]) > 1 \
        or any(source.enclosing(e_.node, ast.For) is not None and not _every_iteration_passes(cfg_of(mtt), source.enclosing(e_.node, ast.For), [cfg_of(mtt).node_of(e_.node)])
               for e_ in memits if not isinstance(e_.node, (ast.ListComp, ast.GeneratorExp)))

    def one_value_per_sample():
        """the pass-through routine interpreted on batches whose samples differ in everything a filter might look at (runner throughput 0 / 0.0 / None of a failed request)."""
        MC.record_tuple = H.record_tuple
        for tps in ((15000.0, 0, 0.0), (None, 3.5), (2.0,), ()):
            b_ = [_sample(throughput=v_, absolute_time=20.0 + i_, relative_time=float(i_), total_ops=(0 if i_ == 1 else 5), sample_type=i_ % 2, client_id=i_) for i_, v_ in enumerate(tps)]
            out = MC.call(calculator(), mtt.name, list(b_))
            out = _elements(out)
            if len(out) != len(b_):
                return False, f"{mtt.name} returns {len(out)} value(s) for a batch of {len(b_)} samples with runner throughput {list(tps)}"
            for s_, t_ in zip(b_, out):
                if not (isinstance(t_, tuple) and len(t_) == 5 and t_[0] == s_.fields[_ABS]):
                    return False, f"{mtt.name}: the value for the sample at t={s_.fields[_ABS]} is {t_!r}: not a 5-tuple stamped with that sample's time, in the order of the batch"
        return True, "one value per sample, in batch order, for runner throughput 15000.0 / 0 / 0.0 / None and an empty batch"

    pv = None
    try:
        pv = one_value_per_sample()
    except (CannotEval, RecursionError, ZeroDivisionError, TypeError, ValueError, KeyError, AttributeError, IndexError):
        pass
    if pv is not None and not pv[0]:
        chk.ob("O6.4", "pass-through emits one value per sample", False, mtt, pv[1])
    elif ok or (pv is not None and not filtered):
        chk.ob("O6.4", "pass-through emits one value per sample", True, mtt, pv[1] if pv is not None else "")
    elif filtered and pv is None:
        chk.ob("O6.4", "pass-through emits one value per sample", False, mtt, "a way through the routine produces no value for a sample (filter / conditional append / early exit)")
    else:
        chk.unknown("O6.4", f"whether {mtt.name} produces one value per sample was not recognised" + (" (a condition decides whether a sample gets a value; the representative samples all did)" if filtered else ""), mtt)
    for e in memits:
        t5 = e.elts
        ok = isinstance(t5[3], ast.Attribute) and t5[3].attr == tp_field and isinstance(t5[3].value, ast.Name) and t5[3].value.id in mvars
        chk.ob("O6.4", "pass-through value is the sample's throughput", ok, e.node, f"4th element: {u(t5[3])}")
        v = t5[3].value.id if ok else (sorted(mvars)[0] if mvars else "?")
        chk.ob("O6.4", "pass-through keeps the sample's type and times", is_field(t5[2], v, _STYPE) and is_field(t5[0], v, _ABS) and is_field(t5[1], v, _REL), e.node,
               f"({u(t5[0])}, {u(t5[1])}, {u(t5[2])}, ...)")
    for e, others in [(e, {batch: [_sample(total_ops_unit="ops")] * 2, **{nm_: _sample(total_ops_unit="ops") for nm_ in sampled}}) for e in emits] + \
                     [(e, {p: [_sample(total_ops_unit="ops")] * 2 for p in mbatch} | {nm_: _sample(total_ops_unit="ops") for nm_ in mvars}) for e in memits]:
        unit = e.elts[4]
        ts = e.elts[0].value if isinstance(e.elts[0], ast.Attribute) and e.elts[0].attr == _ABS else None
        val, how = _unit_value(unit, u(ts) if ts is not None else None, others)
        if val is None:
            chk.unknown("O6.4", f"unit `{short(unit, 60)}` of an emitted value could not be evaluated", e.node)
            continue
        chk.ob("O6.4", "unit is '<ops unit>/s'", val == "docs/s", e.node, f"5th element: {u(unit)}" + ("" if val == "docs/s" else
               f" — evaluates to {val!r} when the sample that timestamps the value counts 'docs'" + (" and the other samples of the batch 'ops'" if how == "value" else "")))

    # ---- obligations added after the defect hunt --------------------------------------------------------------------------------------------
    sampler_handover_rule(chk, drv)
    passthrough_decision_rule(chk, H, calc, ctt, mtt, tp_field, key_param)
    unit_source_rule(chk, TC, ctt, emits, L, stats_var, batch, sampled)
    low_water_mark_rule(chk, drv, TS, TC, I)
    throughput_records_rule(chk, repo, drv)


def _close(a, b):
    """numeric equality up to rounding (a refactored formula may associate differently)."""
    if isinstance(a, bool) or isinstance(b, bool) or not isinstance(a, (int, float)) or not isinstance(b, (int, float)):
        return a == b
    return abs(a - b) <= 1e-9 * max(1.0, abs(a), abs(b))


def _empty_list(v):
    return (isinstance(v, ast.List) and not v.elts) or (isinstance(v, ast.Call) and dotted(v.func) == "list" and not v.args and not v.keywords)


from sa.selftest import V  # noqa: E402

VARIANTS = [
    V("F12: unprocessed not cleared once merged", "break", _D, "        # samples carried over from the previous invocation are already contained in current_samples\n        current.unprocessed = []\n", "", "O6.1"),
    V("count += inside else", "break", _D, "            count += sample.total_ops\n            current.update_interval(sample.absolute_time)\n\n            if current.can_calculate_throughput():",
      "            current.update_interval(sample.absolute_time)\n\n            if current.can_calculate_throughput():\n                count += sample.total_ops", "O6.1"),
    V("finish does not reset unprocessed", "break", _D, "        def finish_bucket(self, new_total):\n            self.unprocessed = []\n", "        def finish_bucket(self, new_total):\n", "O6.1"),
    V("drop the chain", "break", _D, "                samples = itertools.chain(v, self.task_stats[task].unprocessed)", "                samples = v", "O6.1"),
    V("seed m1: final rule writes total directly", "break", _D, "        if last_sample is not None and current.can_add_final_throughput_sample():\n            current.finish_bucket(count)",
      "        if last_sample is not None and current.can_add_final_throughput_sample():\n            current.total_count = count\n            current.has_samples_in_sample_type = True", "O6."),
    V("interval not monotone", "break", _D, "            self.interval = max(absolute_sample_time - self.start_time, self.interval)", "            self.interval = absolute_sample_time - self.start_time", "O6.2"),
    V("can_calculate without > 0", "break", _D, "            return self.interval > 0 and self.interval >= self.bucket", "            return self.interval >= self.bucket", "O6.2"),
    V("sample type may fall", "break", _D, "            if self.sample_type < current_sample_type:", "            if self.sample_type != current_sample_type:", "O6.3"),
    V("seed m2: emit sample.sample_type", "break", _D, "                        sample.relative_time,\n                        current.sample_type,", "                        sample.relative_time,\n                        sample.sample_type,", "O6.3"),
    V("flag not cleared on rise", "break", _D, "                self.sample_type = current_sample_type\n                self.has_samples_in_sample_type = False", "                self.sample_type = current_sample_type", "O6.3"),
    V("seed m3: truthiness dispatch", "break", _D, "            if first_sample.throughput is None:", "            if not first_sample.throughput:", "O6.4"),
    V("pass-through emits total_ops", "break", _D, "                    sample.sample_type,\n                    sample.throughput,", "                    sample.sample_type,\n                    sample.total_ops,", "O6.4"),
    V("unit without /s", "break", _D, '                        f"{sample.total_ops_unit}/s",', '                        f"{sample.total_ops_unit}",', "O6.4"),
    V("throughput = count / bucket", "break", _D, "            return self.total_count / self.interval", "            return self.total_count / self.bucket", "O6.5"),
    V("start without time_period", "break", _D, "                start_time=first_sample.absolute_time - first_sample.time_period,", "                start_time=first_sample.absolute_time,", "O6.5"),
    # F23 (repaired in f7c4bc2): the worker ships the remaining samples before it replaces / drops the sampler
    V("F23: next round replaces the sampler undrained (repair reverted)", "break", _D,
      "                # the previous tasks may have finished after the last periodic drain: ship their remaining samples before the sampler is replaced\n                self.send_samples()\n                self.sampler = Sampler(",
      "                self.sampler = Sampler(", "O6.6"),
    V("F23: drain of the next round only when no completion was requested", "break", _D,
      "                self.send_samples()\n                self.sampler = Sampler(",
      "                if self.cancel.is_set():\n                    self.send_samples()\n                self.sampler = Sampler(", "O6.6"),
    V("F23: join point drains before it waits for the load generator", "break", _D,
      "            if self.executor_future is not None:\n                self.executor_future.result()\n            self.send_samples()\n",
      "            self.send_samples()\n            if self.executor_future is not None:\n                self.executor_future.result()\n", "O6.6"),
    V("F23 respelled: drain moved above the log line", "keep", _D,
      "                self.logger.debug(\"Worker[%d] is executing tasks at index [%d].\", self.worker_id, self.current_task_index)\n                # the previous tasks may have finished after the last periodic drain: ship their remaining samples before the sampler is replaced\n                self.send_samples()\n",
      "                self.send_samples()\n                self.logger.debug(\"Worker[%d] is executing tasks at index [%d].\", self.worker_id, self.current_task_index)\n"),
    V("F23 respelled: result of the drain bound, new sampler through a local", "keep", _D,
      "                self.send_samples()\n                self.sampler = Sampler(start_timestamp=time.perf_counter(), buffer_size=self.sample_queue_size)\n",
      "                leftover = self.send_samples()\n                if leftover:\n                    self.logger.debug(\"Worker[%d] shipped [%d] late samples.\", self.worker_id, len(leftover))\n"
      "                fresh = Sampler(start_timestamp=time.perf_counter(), buffer_size=self.sample_queue_size)\n                self.sampler = fresh\n"),
    # preserving
    V("reorder finish assignments", "keep", _D, "            self.unprocessed = []\n            self.total_count = new_total", "            self.total_count = new_total\n            self.unprocessed = []"),
    V("is not None dispatch inverted", "keep", _D,
      "            if first_sample.throughput is None:\n                task_throughput = self.calculate_task_throughput(task, current_samples, bucket_interval_secs)\n            else:\n                task_throughput = self.map_task_throughput(current_samples)",
      "            if first_sample.throughput is not None:\n                task_throughput = self.map_task_throughput(current_samples)\n            else:\n                task_throughput = self.calculate_task_throughput(task, current_samples, bucket_interval_secs)"),
    V("max operands swapped", "keep", _D, "            self.interval = max(absolute_sample_time - self.start_time, self.interval)", "            self.interval = max(self.interval, absolute_sample_time - self.start_time)"),
]


# ---- variants for realistic refactorings (hardening round 2): each `keep` is a behaviour-preserving respelling the restated obligations accept, each `break` places a defect INSIDE
# such a shape (extracted helper, guard clause, comprehension, renamed roles ...) to show that the restated obligation still bites there


def _var(name, kind, rule, edits):
    vs = []
    for old, new in edits:
        if isinstance(old, tuple):
            vs.append(V(name, kind, _D, old[0], new, rule, count=old[1], regex=True))
        else:
            vs.append(V(name, kind, _D, old, new, rule))
    VARIANTS.append(vs[0] if len(vs) == 1 else vs)


_MTT_OLD = '''        throughput = []
        for sample in current_samples:
            throughput.append(
                (
                    sample.absolute_time,
                    sample.relative_time,
                    sample.sample_type,
                    sample.throughput,
                    f"{sample.total_ops_unit}/s",
                )
            )
        return throughput
'''
_var("refactored: map as comprehension", "keep", None, [(_MTT_OLD, '''        return [
            (sample.absolute_time, sample.relative_time, sample.sample_type, sample.throughput, f"{sample.total_ops_unit}/s")
            for sample in current_samples
        ]
''')])
_var("defect in a refactored shape: comprehension drops zero throughput", "break", "O6.4", [(_MTT_OLD, '''        return [
            (sample.absolute_time, sample.relative_time, sample.sample_type, sample.throughput, f"{sample.total_ops_unit}/s")
            for sample in current_samples if sample.throughput
        ]
''')])
_CREATE_OLD = '''        if task not in self.task_stats:
            first_sample = current_samples[0]
            self.task_stats[task] = ThroughputCalculator.TaskStats(
                bucket_interval=bucket_interval_secs,
                sample_type=first_sample.sample_type,
                start_time=first_sample.absolute_time - first_sample.time_period,
            )
        current = self.task_stats[task]
'''
_var("refactored: stats helper", "keep", None, [(_CREATE_OLD, '''        current = self._stats_for(task, current_samples, bucket_interval_secs)
'''), ('''    def map_task_throughput(self, current_samples):
''', '''    def _stats_for(self, task, samples, bucket_interval_secs):
        if task not in self.task_stats:
            first_sample = samples[0]
            self.task_stats[task] = ThroughputCalculator.TaskStats(
                bucket_interval=bucket_interval_secs,
                sample_type=first_sample.sample_type,
                start_time=first_sample.absolute_time - first_sample.time_period,
            )
        return self.task_stats[task]

    def map_task_throughput(self, current_samples):
''')])
_var("defect in a refactored shape: stats helper recreates state when nothing pending", "break", "O6.5", [(_CREATE_OLD, '''        current = self._stats_for(task, current_samples, bucket_interval_secs)
'''), ('''    def map_task_throughput(self, current_samples):
''', '''    def _stats_for(self, task, samples, bucket_interval_secs):
        if task not in self.task_stats or not self.task_stats[task].unprocessed:
            first_sample = samples[0]
            self.task_stats[task] = ThroughputCalculator.TaskStats(
                bucket_interval=bucket_interval_secs,
                sample_type=first_sample.sample_type,
                start_time=first_sample.absolute_time - first_sample.time_period,
            )
        return self.task_stats[task]

    def map_task_throughput(self, current_samples):
''')])
_var("refactored: setdefault", "keep", None, [(_CREATE_OLD, '''        first_sample = current_samples[0]
        current = self.task_stats.setdefault(
            task,
            ThroughputCalculator.TaskStats(
                bucket_interval=bucket_interval_secs,
                sample_type=first_sample.sample_type,
                start_time=first_sample.absolute_time - first_sample.time_period,
            ),
        )
''')])
_var("refactored: rename total_count", "keep", None, [((r"\btotal_count\b", 6), "carried_total")])
_var("refactored: rename unprocessed", "keep", None, [((r"\bunprocessed\b", 6), "pending")])
_var("refactored: rename interval attr", "keep", None, [((r"\.interval\b", 8), ".elapsed")])
_var("refactored: rename has_samples flag", "keep", None, [((r"\bhas_samples_in_sample_type\b", 4), "has_value")])
_var("refactored: rename task_stats", "keep", None, [((r"\btask_stats\b", 6), "stats_by_task")])
_var("refactored: rename methods", "keep", None, [((r"\bfinish_bucket\b", 3), "close_bucket"), ((r"\bupdate_interval\b", 2), "advance"), ((r"\bmaybe_update_sample_type\b", 2), "observe_type"),
                                     ((r"\bcan_calculate_throughput\b", 2), "bucket_complete"), ((r"\bcan_add_final_throughput_sample\b", 2), "needs_final_value")])
_var("refactored: rename the two routines", "keep", None, [((r"\bcalculate_task_throughput\b", 2), "_calculate_for"), ((r"\bmap_task_throughput\b", 2), "_pass_through")])
_var("refactored: update_interval as if", "keep", None, [("            self.interval = max(absolute_sample_time - self.start_time, self.interval)", "            elapsed = absolute_sample_time - self.start_time\n            if elapsed > self.interval:\n                self.interval = elapsed")])
_var("defect in a refactored shape: update_interval as if, wrong way", "break", "O6.2", [("            self.interval = max(absolute_sample_time - self.start_time, self.interval)", "            elapsed = absolute_sample_time - self.start_time\n            if elapsed < self.interval:\n                self.interval = elapsed")])
_var("refactored: type update via max", "keep", None, [("            if self.sample_type < current_sample_type:\n                self.sample_type = current_sample_type\n                self.has_samples_in_sample_type = False",
   "            newer = max(self.sample_type, current_sample_type)\n            if newer != self.sample_type:\n                self.sample_type = newer\n                self.has_samples_in_sample_type = False")])
_GROUP_OLD = '''            k = sample.task
            if k not in samples_per_task:
                samples_per_task[k] = []
            samples_per_task[k].append(sample)
'''
_var("refactored: grouping setdefault", "keep", None, [(_GROUP_OLD, "            samples_per_task.setdefault(sample.task, []).append(sample)\n")])
_var("refactored: grouping defaultdict", "keep", None, [(_GROUP_OLD, "            samples_per_task[sample.task].append(sample)\n"), ("        samples_per_task = {}\n", "        samples_per_task = collections.defaultdict(list)\n")])
_var("defect in a refactored shape: grouping skips zero-op samples", "break", "O6.1", [(_GROUP_OLD, "            if not sample.total_ops:\n                continue\n            samples_per_task.setdefault(sample.task, []).append(sample)\n")])
_var("refactored: attrgetter", "keep", None, [("key=lambda s: s.absolute_time", 'key=operator.attrgetter("absolute_time")')])
_var("refactored: ops local", "keep", None, [("            count += sample.total_ops\n", "            ops = sample.total_ops\n            count += ops\n")])
_var("refactored: whole sample to state", "keep", None, [("            current.update_interval(sample.absolute_time)", "            current.update_interval(sample)"),
    ("        def update_interval(self, absolute_sample_time):\n            self.interval = max(absolute_sample_time - self.start_time, self.interval)", "        def update_interval(self, sample):\n            self.interval = max(sample.absolute_time - self.start_time, self.interval)")])
_var("refactored: keep method", "keep", None, [("                current.unprocessed.append(sample)", "                current.keep(sample)"),
    ("        def finish_bucket(self, new_total):", "        def keep(self, sample):\n            self.unprocessed.append(sample)\n\n        def finish_bucket(self, new_total):")])
_var("refactored: chain via alias", "keep", None, [("                samples = itertools.chain(v, self.task_stats[task].unprocessed)", "                carried_over = self.task_stats[task].unprocessed\n                samples = itertools.chain(v, carried_over)")])
_var("refactored: eager concatenation", "keep", None, [("                samples = itertools.chain(v, self.task_stats[task].unprocessed)", "                samples = v + self.task_stats[task].unprocessed")])
_var("refactored: predicate as property", "keep", None, [("        def can_calculate_throughput(self):", "        @property\n        def can_calculate_throughput(self):"), ("            if current.can_calculate_throughput():", "            if current.can_calculate_throughput:")])
_var("refactored: enumerate loop", "keep", None, [("        for sample in current_samples:\n            last_sample = sample", "        for idx, sample in enumerate(current_samples):\n            last_sample = sample")])
_var("refactored: can_calc flipped", "keep", None, [("            return self.interval > 0 and self.interval >= self.bucket", "            return 0 < self.interval and self.bucket <= self.interval")])
_var("refactored: final predicate as if-chain", "keep", None, [("            return self.interval > 0 and not self.has_samples_in_sample_type", "            if self.has_samples_in_sample_type:\n                return False\n            return self.interval > 0")])
_var("defect in a refactored shape: final predicate also wants count", "break", "O6.3", [("            return self.interval > 0 and not self.has_samples_in_sample_type", "            if self.has_samples_in_sample_type or self.total_count == 0:\n                return False\n            return self.interval > 0")])
_var("refactored: unit via str concat", "keep", None, [('                    f"{last_sample.total_ops_unit}/s",', '                    last_sample.total_ops_unit + "/s",')])
_var("refactored: finish clears list in place", "keep", None, [("        def finish_bucket(self, new_total):\n            self.unprocessed = []", "        def finish_bucket(self, new_total):\n            self.unprocessed.clear()")])

_EMIT1 = '''                task_throughput.append(
                    (
                        sample.absolute_time,
                        sample.relative_time,
                        current.sample_type,
                        current.throughput,
                        # we calculate throughput per second
                        f"{sample.total_ops_unit}/s",
                    )
                )
'''
_EMIT2 = '''            task_throughput.append(
                (
                    last_sample.absolute_time,
                    last_sample.relative_time,
                    current.sample_type,
                    current.throughput,
                    f"{last_sample.total_ops_unit}/s",
                )
            )
'''
_HELPER_AT = '''    def map_task_throughput(self, current_samples):
'''
def _helper(body):
    return '''    @staticmethod
    def _throughput_value(sample, sample_type, throughput):
        return (
''' + body + '''        )

''' + _HELPER_AT
_GOOD = '''            sample.absolute_time,
            sample.relative_time,
            sample_type,
            throughput,
            f"{sample.total_ops_unit}/s",
'''
_B1 = [(_EMIT1, "                task_throughput.append(self._throughput_value(sample, current.sample_type, current.throughput))\n"),
      (_EMIT2, "            task_throughput.append(self._throughput_value(last_sample, current.sample_type, current.throughput))\n")]
_var("refactored: tuple helper", "keep", None, _B1 + [(_HELPER_AT, _helper(_GOOD))])
_var("defect in a refactored shape: tuple helper emits the sample's own type", "break", "O6.3", _B1 + [(_HELPER_AT, _helper(_GOOD.replace("            sample_type,\n", "            sample.sample_type,\n")))])
_var("defect in a refactored shape: tuple helper swaps type and value", "break", "O6.3", _B1 + [(_HELPER_AT, _helper(_GOOD.replace("            sample_type,\n            throughput,\n", "            throughput,\n            sample_type,\n")))])
_var("defect in a refactored shape: tuple helper: unit without /s", "break", "O6.4", _B1 + [(_HELPER_AT, _helper(_GOOD.replace('f"{sample.total_ops_unit}/s"', 'sample.total_ops_unit')))])
_var("defect in a refactored shape: call site passes sample.sample_type", "break", "O6.3", [(_EMIT1, "                task_throughput.append(self._throughput_value(sample, sample.sample_type, current.throughput))\n"), _B1[1], (_HELPER_AT, _helper(_GOOD))])
_var("refactored: helper takes the state", "keep", None, [(_EMIT1, "                task_throughput.append(self._throughput_value(sample, current))\n"), (_EMIT2, "            task_throughput.append(self._throughput_value(last_sample, current))\n"),
     (_HELPER_AT, '''    @staticmethod
    def _throughput_value(sample, stats):
        return (sample.absolute_time, sample.relative_time, stats.sample_type, stats.throughput, f"{sample.total_ops_unit}/s")

''' + _HELPER_AT)])
_LOOP_TAIL_OLD = '''            if current.can_calculate_throughput():
                current.finish_bucket(count)
''' + _EMIT1 + '''            else:
                current.unprocessed.append(sample)
'''
_GUARD = '''            if not current.can_calculate_throughput():
                current.unprocessed.append(sample)
                continue
            current.finish_bucket(count)
''' + _EMIT1.replace("\n    ", "\n").replace("                task_throughput", "            task_throughput", 1)
_var("refactored: guard clause", "keep", None, [(_LOOP_TAIL_OLD, _GUARD)])
_HEAD_OLD = '''            count += sample.total_ops
            current.update_interval(sample.absolute_time)

'''
_var("defect in a refactored shape: guard clause above the count update", "break", "O6.1", [(_LOOP_TAIL_OLD, '''            current.finish_bucket(count)
''' + _EMIT1.replace("\n    ", "\n").replace("                task_throughput", "            task_throughput", 1)),
    (_HEAD_OLD, '''            current.update_interval(sample.absolute_time)
            if not current.can_calculate_throughput():
                current.unprocessed.append(sample)
                continue
            count += sample.total_ops
''')])
_var("defect in a refactored shape: guard clause without keeping the sample", "break", "O6.1", [(_LOOP_TAIL_OLD, _GUARD.replace("                current.unprocessed.append(sample)\n", "                pass\n"))])
_var("refactored: last sample by index", "keep", None, [("        last_sample = None\n", ""), ("            last_sample = sample\n", ""),
    ("        if last_sample is not None and current.can_add_final_throughput_sample():", "        last_sample = current_samples[-1] if current_samples else None\n        if last_sample is not None and current.can_add_final_throughput_sample():")])
_var("refactored: throughput as method", "keep", None, [("        @property\n        def throughput(self):", "        def throughput(self):"), ((r"current\.throughput,", 2), "current.throughput(),")])
_var("refactored: unit local per site", "keep", None, [(_EMIT1, '''                unit = f"{sample.total_ops_unit}/s"
                task_throughput.append((sample.absolute_time, sample.relative_time, current.sample_type, current.throughput, unit))
'''), (_EMIT2, '''            unit = f"{last_sample.total_ops_unit}/s"
            task_throughput.append((last_sample.absolute_time, last_sample.relative_time, current.sample_type, current.throughput, unit))
''')])
_var("refactored: final rule as guard clauses", "keep", None, [("        if last_sample is not None and current.can_add_final_throughput_sample():\n            current.finish_bucket(count)\n" + _EMIT2,
   "        if last_sample is None:\n            return task_throughput\n        if not current.can_add_final_throughput_sample():\n            return task_throughput\n        current.finish_bucket(count)\n" + _EMIT2.replace("\n    ", "\n").replace("            task_throughput", "        task_throughput", 1))])
_var("defect in a refactored shape: final rule only for batches that closed no bucket", "break", "O6.3", [("        if last_sample is not None and current.can_add_final_throughput_sample():", "        if last_sample is not None and not task_throughput and current.can_add_final_throughput_sample():")])
_var("defect in a refactored shape: final emit without finish", "break", "O6.", [("        if last_sample is not None and current.can_add_final_throughput_sample():\n            current.finish_bucket(count)\n", "        if last_sample is not None and current.can_add_final_throughput_sample():\n")])
_var("defect in a refactored shape: in-loop read of throughput before interval check", "break", "O6.2", [("            if current.can_calculate_throughput():\n                current.finish_bucket(count)", "            if current.interval >= current.bucket:\n                current.finish_bucket(count)")])

_var("refactored: reset method on the state", "keep", None, [("        current.unprocessed = []\n        count = current.total_count", "        current.start_batch()\n        count = current.total_count"),
   ("        def finish_bucket(self, new_total):", "        def start_batch(self):\n            # samples carried over from the previous invocation are part of the new batch\n            self.unprocessed = []\n\n        def finish_bucket(self, new_total):")])
_var("defect in a refactored shape: reset method also resets the carried total", "break", "O6.1", [("        current.unprocessed = []\n        count = current.total_count", "        current.start_batch()\n        count = current.total_count"),
   ("        def finish_bucket(self, new_total):", "        def start_batch(self):\n            self.unprocessed = []\n            self.total_count = 0\n\n        def finish_bucket(self, new_total):")])
_var("refactored: slice reset", "keep", None, [("        current.unprocessed = []\n        count = current.total_count", "        del current.unprocessed[:]\n        count = current.total_count")])
_var("refactored: count init after type", "keep", None, [("        count = current.total_count\n        last_sample = None\n", "        last_sample = None\n        count = current.total_count\n")])
_var("refactored: early return on empty batch", "keep", None, [("        task_throughput = []\n\n        if task not in self.task_stats:", "        task_throughput = []\n        if not current_samples:\n            return task_throughput\n\n        if task not in self.task_stats:")])
_var("refactored: dispatch without the local", "keep", None, [("            if first_sample.throughput is None:", "            if current_samples[0].throughput is None:")])
_var("refactored: dispatch bound to local", "keep", None, [("            if first_sample.throughput is None:", "            runner_throughput = first_sample.throughput\n            if runner_throughput is None:")])
_var("refactored: ternary dispatch", "keep", None, [('''            if first_sample.throughput is None:
                task_throughput = self.calculate_task_throughput(task, current_samples, bucket_interval_secs)
            else:
                task_throughput = self.map_task_throughput(current_samples)
''', '''            task_throughput = (
                self.calculate_task_throughput(task, current_samples, bucket_interval_secs)
                if first_sample.throughput is None
                else self.map_task_throughput(current_samples)
            )
''')])
_var("refactored: keyword args at call", "keep", None, [("self.calculate_task_throughput(task, current_samples, bucket_interval_secs)", "self.calculate_task_throughput(task=task, current_samples=current_samples, bucket_interval_secs=bucket_interval_secs)")])
_var("refactored: positional ctor", "keep", None, [('''ThroughputCalculator.TaskStats(
                bucket_interval=bucket_interval_secs,
                sample_type=first_sample.sample_type,
                start_time=first_sample.absolute_time - first_sample.time_period,
            )''', '''ThroughputCalculator.TaskStats(bucket_interval_secs, first_sample.sample_type, first_sample.absolute_time - first_sample.time_period)''')])
_var("refactored: start local", "keep", None, [('''            first_sample = current_samples[0]
            self.task_stats[task] = ThroughputCalculator.TaskStats(''', '''            first_sample = current_samples[0]
            task_start = first_sample.absolute_time - first_sample.time_period
            self.task_stats[task] = ThroughputCalculator.TaskStats('''), ("                start_time=first_sample.absolute_time - first_sample.time_period,", "                start_time=task_start,")])
_var("refactored: finish via tuple assignment", "keep", None, [("            self.unprocessed = []\n            self.total_count = new_total\n", "            self.unprocessed, self.total_count = [], new_total\n")])
_var("refactored: drain with popleft loop", "keep", None, [('''        samples = []
        try:
            while True:
                samples.append(self.q.get_nowait())
        except queue.Empty:
            pass
        return samples
''', '''        drained = []
        while True:
            try:
                drained.append(self.q.get_nowait())
            except queue.Empty:
                return drained
''')])
_var("defect in a refactored shape: drain copy then clear", "break", "O6.6", [('''        samples = []
        try:
            while True:
                samples.append(self.q.get_nowait())
        except queue.Empty:
            pass
        return samples
''', '''        samples = list(self.q.queue)
        self.q.queue.clear()
        return samples
''')])

_MERGE_OLD = '''            if task in self.task_stats:
                samples = itertools.chain(v, self.task_stats[task].unprocessed)
            else:
                samples = v
            current_samples = sorted(samples, key=lambda s: s.absolute_time)
'''
_MERGE_HELPER = ("    def map_task_throughput(self, current_samples):\n", '''    def _with_pending(self, task, new_samples):
        if task in self.task_stats:
            return itertools.chain(new_samples, self.task_stats[task].unprocessed)
        return new_samples

    def map_task_throughput(self, current_samples):
''')
_var("refactored: merge of new and pending samples extracted into a helper", "keep", None,
     [(_MERGE_OLD, "            current_samples = sorted(self._with_pending(task, v), key=lambda s: s.absolute_time)\n"), _MERGE_HELPER])
_var("defect in a refactored shape: merged iterator from the helper peeked before the sort", "break", "O6.1",
     [(_MERGE_OLD, "            samples = self._with_pending(task, v)\n            if next(iter(samples), None) is None:\n                continue\n            current_samples = sorted(samples, key=lambda s: s.absolute_time)\n"),
      _MERGE_HELPER])
_var("defect in a refactored shape: helper merges only when the task is NOT known", "break", "O6.1",
     [(_MERGE_OLD, "            current_samples = sorted(self._with_pending(task, v), key=lambda s: s.absolute_time)\n"),
      (_MERGE_HELPER[0], _MERGE_HELPER[1].replace("        if task in self.task_stats:\n", "        if task in self.task_stats and not new_samples:\n"))])
_var("refactored: unit with % formatting", "keep", None, [('                    f"{last_sample.total_ops_unit}/s",', '                    "%s/s" % last_sample.total_ops_unit,')])
_var("defect in a refactored shape: % formatted unit from the first sample of the batch", "break", "O6.4",
     [('                    f"{last_sample.total_ops_unit}/s",', '                    "%s/s" % current_samples[0].total_ops_unit,')])
_var("refactored: sort key as a named function", "keep", None,
     [("key=lambda s: s.absolute_time", "key=_by_time"), ("class ThroughputCalculator:\n", "def _by_time(s):\n    return s.absolute_time\n\n\nclass ThroughputCalculator:\n")])
_var("refactored: bucket boundary with math.floor", "keep", None, [("            self.bucket = int(self.interval) + self.bucket_interval", "            self.bucket = math.floor(self.interval) + self.bucket_interval")])
_var("refactored: type update spelled with the enum members", "keep", None,
     [("            if self.sample_type < current_sample_type:", "            if self.sample_type == metrics.SampleType.Warmup and current_sample_type == metrics.SampleType.Normal:")])
_var("defect in a refactored shape: enum-spelled type update lets the type fall", "break", "O6.3",
     [("            if self.sample_type < current_sample_type:", "            if self.sample_type == metrics.SampleType.Normal and current_sample_type == metrics.SampleType.Warmup:")])
_var("defect in a refactored shape: has-value flag set only when the count is positive", "break", "O6.3",
     [("            self.has_samples_in_sample_type = True\n", "            self.has_samples_in_sample_type = new_total > 0\n")])
_var("refactored: finish stores the total behind a test that always holds", "keep", None,
     [("            self.total_count = new_total\n", "            if new_total >= self.total_count:\n                self.total_count = new_total\n")])


# ---- hardening round 3: the merge / sort of calculate() is decided on VALUES (calculate() interpreted with the per-task routines stubbed), tuple-like record classes are tuples
_SORT_OLD = "            current_samples = sorted(samples, key=lambda s: s.absolute_time)\n"
_KEY_DEF = ("        global_throughput = {}\n", "        def absolute_time(sample):\n            return sample.absolute_time\n\n        global_throughput = {}\n")
_var("refactored: new samples sorted, carried-over ones merged in with heapq.merge", "keep", None,
     [(_MERGE_OLD, "            current_samples = sorted(v, key=absolute_time)\n            if task in self.task_stats and self.task_stats[task].unprocessed:\n"
                   "                current_samples = list(heapq.merge(current_samples, self.task_stats[task].unprocessed, key=absolute_time))\n"),
      _KEY_DEF, ("import itertools\n", "import heapq\nimport itertools\n")])
_var("defect in a refactored shape: heapq.merge over the new samples in arrival order", "break", "O6.1",
     [(_MERGE_OLD, "            current_samples = list(v)\n            if task in self.task_stats and self.task_stats[task].unprocessed:\n"
                   "                current_samples = list(heapq.merge(current_samples, self.task_stats[task].unprocessed, key=absolute_time))\n"
                   "            else:\n                current_samples.sort(key=absolute_time)\n"),
      _KEY_DEF, ("import itertools\n", "import heapq\nimport itertools\n")])
_var("defect in a refactored shape: carried-over samples replace the new ones instead of being merged", "break", "O6.1",
     [(_MERGE_OLD, "            current_samples = sorted(v, key=absolute_time)\n            if task in self.task_stats and self.task_stats[task].unprocessed:\n"
                   "                current_samples = list(self.task_stats[task].unprocessed)\n"),
      _KEY_DEF])
_var("refactored: carry-over chosen by a conditional expression, one chain", "keep", None,
     [(_MERGE_OLD, "            carried_over = self.task_stats[task].unprocessed if task in self.task_stats else []\n"
                   "            current_samples = sorted(itertools.chain(v, carried_over), key=lambda s: s.absolute_time)\n")])
_var("defect in a refactored shape: conditional carry-over computed but never chained", "break", "O6.1",
     [(_MERGE_OLD, "            carried_over = self.task_stats[task].unprocessed if task in self.task_stats else []\n"
                   "            current_samples = sorted(v, key=lambda s: s.absolute_time)\n")])
_var("defect in a refactored shape: conditional carry-over chained twice", "break", "O6.1",
     [(_MERGE_OLD, "            carried_over = self.task_stats[task].unprocessed if task in self.task_stats else []\n"
                   "            current_samples = sorted(itertools.chain(carried_over, v, carried_over), key=lambda s: s.absolute_time)\n")])
_var("refactored: state looked up once with a walrus, eager concatenation sorted in place", "keep", None,
     [(_MERGE_OLD, "            current_samples = list(v)\n            if (known := self.task_stats.get(task)) is not None:\n                current_samples += known.unprocessed\n"
                   "            current_samples.sort(key=lambda s: s.absolute_time)\n")])
_var("defect in a refactored shape: in-place sort in descending order", "break", "O6.1",
     [(_MERGE_OLD, "            current_samples = list(v)\n            if (known := self.task_stats.get(task)) is not None:\n                current_samples += known.unprocessed\n"
                   "            current_samples.sort(key=lambda s: s.absolute_time, reverse=True)\n")])
_var("refactored: sort key is a tuple led by the absolute time", "keep", None, [("key=lambda s: s.absolute_time", "key=lambda s: (s.absolute_time, s.client_id)")])

_NT_CLASS = ("class ThroughputCalculator:\n", '''class ThroughputSample(NamedTuple):
    absolute_time: float
    relative_time: float
    sample_type: metrics.SampleType
    value: float
    unit: str


class ThroughputCalculator:
''')
_NT_IMPORT = ("from typing import Callable, Optional\n", "from typing import Callable, NamedTuple, Optional\n")


def _nt(text, indent):
    return text.replace("(\n" + indent + "(\n", "(\n" + indent + "ThroughputSample(\n", 1)


_NT_EDITS = [(_EMIT1, _nt(_EMIT1, " " * 20)), (_EMIT2, _nt(_EMIT2, " " * 16)), (_MTT_OLD, _nt(_MTT_OLD, " " * 16)), _NT_CLASS, _NT_IMPORT]
_var("refactored: the emitted 5-tuples are a NamedTuple", "keep", None, _NT_EDITS)
_NT_KW = '''                task_throughput.append(
                    ThroughputSample(
                        unit=f"{sample.total_ops_unit}/s",
                        value=current.throughput,
                        sample_type=current.sample_type,
                        relative_time=sample.relative_time,
                        absolute_time=sample.absolute_time,
                    )
                )
'''
_var("refactored: NamedTuple built with keyword arguments in another order", "keep", None, [(_EMIT1, _NT_KW)] + _NT_EDITS[1:])
_var("defect in a refactored shape: NamedTuple fields declared in another order than the consumer unpacks", "break", "O6.",
     [(_EMIT1, _NT_KW)] + _NT_EDITS[1:3] + [(_NT_CLASS[0], _NT_CLASS[1].replace("    sample_type: metrics.SampleType\n    value: float\n", "    value: float\n    sample_type: metrics.SampleType\n")), _NT_IMPORT])
_var("defect in a refactored shape: NamedTuple built with the sample's own type", "break", "O6.3",
     [(_EMIT1, _NT_KW.replace("sample_type=current.sample_type", "sample_type=sample.sample_type"))] + _NT_EDITS[1:])
_var("refactored: grouping with a two-armed if (first sample starts the list)", "keep", None,
     [(_GROUP_OLD, "            if sample.task in samples_per_task:\n                samples_per_task[sample.task].append(sample)\n            else:\n                samples_per_task[sample.task] = [sample]\n")])
_var("refactored: grouping with groupby over the batch sorted by task name", "keep", None,
     [("        for sample in samples:\n" + _GROUP_OLD, "        for k, members in itertools.groupby(sorted(samples, key=lambda s: s.task.name), key=lambda s: s.task):\n            samples_per_task[k] = list(members)\n")])
_var("defect in a refactored shape: two-armed grouping forgets the sample that opens a group", "break", "O6.1",
     [(_GROUP_OLD, "            if sample.task in samples_per_task:\n                samples_per_task[sample.task].append(sample)\n            else:\n                samples_per_task[sample.task] = []\n")])
_var("refactored: pass-through loop with enumerate", "keep", None, [("        throughput = []\n        for sample in current_samples:\n            throughput.append(", "        throughput = []\n        for _idx, sample in enumerate(current_samples):\n            throughput.append(")])
_var("defect in a refactored shape: pass-through loop skips the first sample", "break", "O6.4",
     [("        throughput = []\n        for sample in current_samples:\n            throughput.append(", "        throughput = []\n        for sample in current_samples[1:]:\n            throughput.append(")])
_var("refactored: running count starts from a getter of the state", "keep", None,
     [("        count = current.total_count\n", "        count = current.carried()\n"), ("        def finish_bucket(self, new_total):", "        def carried(self):\n            return self.total_count\n\n        def finish_bucket(self, new_total):")])
_var("defect in a refactored shape: getter hands out the pending count instead of the carried total", "break", "O6.1",
     [("        count = current.total_count\n", "        count = current.carried()\n"), ("        def finish_bucket(self, new_total):", "        def carried(self):\n            return len(self.unprocessed)\n\n        def finish_bucket(self, new_total):")])
_var("refactored: sample kept with extend([sample])", "keep", None, [("                current.unprocessed.append(sample)", "                current.unprocessed.extend([sample])")])
_STATE_EMIT = [(_EMIT1, "                task_throughput.append(current.value_at(sample))\n"), (_EMIT2, "            task_throughput.append(current.value_at(last_sample))\n")]
_STATE_EMIT_DEF = '''        def value_at(self, sample):
            return (sample.absolute_time, sample.relative_time, self.sample_type, self.throughput, f"{sample.total_ops_unit}/s")

        def finish_bucket(self, new_total):'''
_var("refactored: the emitted tuple is built by a method of the per-task state", "keep", None, _STATE_EMIT + [("        def finish_bucket(self, new_total):", _STATE_EMIT_DEF)])
_var("defect in a refactored shape: state method stamps the value with the sample's own type", "break", "O6.3",
     _STATE_EMIT + [("        def finish_bucket(self, new_total):", _STATE_EMIT_DEF.replace("self.sample_type, self.throughput", "sample.sample_type, self.throughput"))])
_var("defect in a refactored shape: state method reports the carried total instead of the throughput", "break", "O6.5",
     _STATE_EMIT + [("        def finish_bucket(self, new_total):", _STATE_EMIT_DEF.replace("self.sample_type, self.throughput", "self.sample_type, self.total_count"))])
_CLEAR_OLD = "        # samples carried over from the previous invocation are already contained in current_samples\n        current.unprocessed = []\n"
_var("refactored: pending list re-bound at the merge site (eager concatenation)", "keep", None,
     [("                samples = itertools.chain(v, self.task_stats[task].unprocessed)\n", "                samples = v + self.task_stats[task].unprocessed\n                self.task_stats[task].unprocessed = []\n"), (_CLEAR_OLD, "")])
_var("defect in a refactored shape: pending list emptied in place while the lazy chain has not read it", "break", "O6.1",
     [("                samples = itertools.chain(v, self.task_stats[task].unprocessed)\n", "                samples = itertools.chain(v, self.task_stats[task].unprocessed)\n                self.task_stats[task].unprocessed.clear()\n"), (_CLEAR_OLD, "")])
_var("refactored: sample loop over an index", "keep", None,
     [("        for sample in current_samples:\n            last_sample = sample\n", "        for idx in range(len(current_samples)):\n            sample = current_samples[idx]\n            last_sample = sample\n")])
_var("refactored: calculator counts the samples it has seen (additive)", "keep", None,
     [("    def __init__(self):\n        self.task_stats = {}\n", "    def __init__(self):\n        self.task_stats = {}\n        self.samples_seen = 0\n        self.logger = logging.getLogger(__name__)\n"),
      ("        samples_per_task = {}\n", "        samples_per_task = {}\n        self.samples_seen += len(samples)\n        self.logger.debug(\"Calculating throughput for [%d] samples.\", len(samples))\n")])
_var("refactored: grouping by a dict comprehension over the set of tasks", "keep", None,
     [("        samples_per_task = {}\n        # first we group all samples by task (operation).\n        for sample in samples:\n" + _GROUP_OLD,
       "        # first we group all samples by task (operation).\n        samples_per_task = {k: [sample for sample in samples if sample.task == k] for k in {sample.task for sample in samples}}\n")])
_var("defect in a refactored shape: comprehension grouping leaves out requests without operations", "break", "O6.1",
     [("        samples_per_task = {}\n        # first we group all samples by task (operation).\n        for sample in samples:\n" + _GROUP_OLD,
       "        # first we group all samples by task (operation).\n        samples_per_task = {k: [sample for sample in samples if sample.task == k and sample.total_ops] for k in {sample.task for sample in samples}}\n")])


# ---- hardening round 4: the running count may live in an attribute of the per-task state (set / grown by state methods or by statements of the routine, moved into the carried total
# by an argument-less finishing routine); the state methods called per sample may delegate (add_sample -> self.update_interval / self.maybe_update_sample_type): roles follow the data
_IN_STATE_INIT = ("            self.total_count = 0\n", "            self.total_count = 0\n            self.pending_count = 0\n")
_IN_STATE_FINISH = ("        def finish_bucket(self, new_total):\n            self.unprocessed = []\n            self.total_count = new_total\n",
                    "        def finish_bucket(self):\n            self.unprocessed = []\n            self.total_count = self.pending_count\n")
_IN_STATE_METHODS = '''        def begin_batch(self):
            self.unprocessed = []
            self.pending_count = self.total_count

        def add_sample(self, sample):
            self.maybe_update_sample_type(sample.sample_type)
            self.pending_count += sample.total_ops
            self.update_interval(sample.absolute_time)

        def maybe_update_sample_type(self, current_sample_type):
'''
_IN_STATE_CALLER = [("        current.unprocessed = []\n        count = current.total_count\n", "        current.begin_batch()\n"),
                    ("            current.maybe_update_sample_type(sample.sample_type)\n", "            current.add_sample(sample)\n"),
                    ("            count += sample.total_ops\n            current.update_interval(sample.absolute_time)\n", ""),
                    ((r"current\.finish_bucket\(count\)", 2), "current.finish_bucket()")]


def _in_state(methods=_IN_STATE_METHODS, finish=_IN_STATE_FINISH[1]):
    return [_IN_STATE_INIT, ("        def maybe_update_sample_type(self, current_sample_type):\n", methods), (_IN_STATE_FINISH[0], finish)] + _IN_STATE_CALLER


_var("refactored: running count kept in the per-task state (begin_batch / add_sample / finish_bucket())", "keep", None, _in_state())
_var("defect in a refactored shape: begin_batch starts the count from 0 instead of the carried total", "break", "O6.1",
     _in_state(_IN_STATE_METHODS.replace("            self.pending_count = self.total_count\n", "            self.pending_count = 0\n")))
_var("defect in a refactored shape: add_sample counts only samples of the task's current sample type", "break", "O6.1",
     _in_state(_IN_STATE_METHODS.replace("            self.pending_count += sample.total_ops\n", "            if sample.sample_type == self.sample_type:\n                self.pending_count += sample.total_ops\n")))
_var("defect in a refactored shape: add_sample adds the operations twice (once more through a helper)", "break", "O6.1",
     _in_state(_IN_STATE_METHODS.replace("            self.update_interval(sample.absolute_time)\n", "            self.update_interval(sample.absolute_time)\n            self.pending_count += sample.total_ops\n")))
_var("defect in a refactored shape: argument-less finish adds the running count to the carried total", "break", "O6.1",
     _in_state(finish=_IN_STATE_FINISH[1].replace("self.total_count = self.pending_count", "self.total_count += self.pending_count")))
_var("defect in a refactored shape: finish restarts the running count inside the batch", "break", "O6.1",
     _in_state(finish=_IN_STATE_FINISH[1] + "            self.pending_count = 0\n"))
_var("defect in a refactored shape: begin_batch moved into the sample loop", "break", "O6.1",
     [_IN_STATE_INIT, ("        def maybe_update_sample_type(self, current_sample_type):\n", _IN_STATE_METHODS), _IN_STATE_FINISH,
      ("        current.unprocessed = []\n        count = current.total_count\n", ""), ("            current.maybe_update_sample_type(sample.sample_type)\n", "            current.begin_batch()\n            current.add_sample(sample)\n")]
     + _IN_STATE_CALLER[2:])
_var("defect in a refactored shape: add_sample delegates the interval update with the time the request started", "break", "O6.2",
     _in_state(_IN_STATE_METHODS.replace("self.update_interval(sample.absolute_time)", "self.update_interval(sample.absolute_time - sample.time_period)")))
_var("defect in a refactored shape: add_sample lets the sample type fall (delegate bypassed)", "break", "O6.3",
     _in_state(_IN_STATE_METHODS.replace("            self.maybe_update_sample_type(sample.sample_type)\n", "            self.sample_type = sample.sample_type\n")))
_IN_STATE_INLINE = [_IN_STATE_INIT, _IN_STATE_FINISH, ("        count = current.total_count\n", "        current.pending_count = current.total_count\n"),
                    ("            count += sample.total_ops\n", "            current.pending_count += sample.total_ops\n"), _IN_STATE_CALLER[3]]
_var("refactored: running count kept in the per-task state, set and grown by statements of the routine", "keep", None, _IN_STATE_INLINE)
_var("defect in a refactored shape: state-kept count replaced by, not grown by, the sample's operations", "break", "O6.1",
     _IN_STATE_INLINE[:3] + [("            count += sample.total_ops\n", "            current.pending_count = sample.total_ops\n"), _IN_STATE_CALLER[3]])
_var("refactored: per-sample updates behind one state method, count still a local", "keep", None,
     [("            current.maybe_update_sample_type(sample.sample_type)\n", "            current.observe(sample)\n"), ("            current.update_interval(sample.absolute_time)\n", ""),
      ("        def maybe_update_sample_type(self, current_sample_type):\n",
       "        def observe(self, sample):\n            self.maybe_update_sample_type(sample.sample_type)\n            self.update_interval(sample.absolute_time)\n\n        def maybe_update_sample_type(self, current_sample_type):\n")])
_IN_STATE_TEST = _IN_STATE_METHODS.replace("            self.update_interval(sample.absolute_time)\n", "            self.update_interval(sample.absolute_time)\n            return self.can_calculate_throughput()\n")


def _in_state_test(methods):
    return [_IN_STATE_INIT, ("        def maybe_update_sample_type(self, current_sample_type):\n", methods), _IN_STATE_FINISH, _IN_STATE_CALLER[0],
            ("            current.maybe_update_sample_type(sample.sample_type)\n", ""), _IN_STATE_CALLER[2], _IN_STATE_CALLER[3],
            ("            if current.can_calculate_throughput():\n", "            if current.add_sample(sample):\n")]


_var("refactored: add_sample reports whether the bucket is complete and is the loop's condition", "keep", None, _in_state_test(_IN_STATE_TEST))
_var("defect in a refactored shape: add_sample reports a complete bucket at elapsed time 0", "break", "O6.2",
     _in_state_test(_IN_STATE_TEST.replace("            return self.can_calculate_throughput()\n", "            return self.interval >= self.bucket\n")))


# ---- strengthening round 5 (seeded m13, m14) ---------------------------------------------------------------------------------------------------------------------------------
# O6.1 "the batch of a task holds that task's samples only": calculate() interpreted on one batch with four interleaved tasks in every order; nothing computed for the task handled
# before may reach the next one
_var("seed m13: carried-over list bound once before the per-task loop, re-bound only for known tasks", "break", "O6.1",
     [(_MERGE_OLD, "            if task in self.task_stats:\n                carried_over = self.task_stats[task].unprocessed\n"
                   "            current_samples = sorted(itertools.chain(v, carried_over), key=lambda s: s.absolute_time)\n"),
      ("        global_throughput = {}\n", "        global_throughput = {}\n        carried_over = []\n")])
_var("else arm of the merge dropped: a new task gets whatever `samples` held before", "break", "O6.1",
     [("                samples = itertools.chain(v, self.task_stats[task].unprocessed)\n            else:\n                samples = v\n",
       "                samples = itertools.chain(v, self.task_stats[task].unprocessed)\n")])
_var("carried-over samples collected in a list that lives across the per-task loop", "break", "O6.1",
     [(_MERGE_OLD, "            if task in self.task_stats:\n                pending.extend(self.task_stats[task].unprocessed)\n"
                   "            current_samples = sorted(itertools.chain(v, pending), key=lambda s: s.absolute_time)\n"),
      ("        global_throughput = {}\n", "        global_throughput = {}\n        pending = []\n")])
_var("state looked up with the previous task's state as the default", "break", "O6.1",
     [(_MERGE_OLD, "            known = self.task_stats.get(task, known)\n"
                   "            current_samples = sorted(itertools.chain(v, known.unprocessed if known is not None else []), key=lambda s: s.absolute_time)\n"),
      ("        global_throughput = {}\n", "        global_throughput = {}\n        known = None\n")])
_var("refactored: carried-over list re-bound to an empty list in every iteration, then to the task's pending samples", "keep", None,
     [(_MERGE_OLD, "            carried_over = []\n            if task in self.task_stats:\n                carried_over = self.task_stats[task].unprocessed\n"
                   "            current_samples = sorted(itertools.chain(v, carried_over), key=lambda s: s.absolute_time)\n")])
_var("refactored: shared empty default bound before the per-task loop, carry-over chosen per task", "keep", None,
     [(_MERGE_OLD, "            carried_over = self.task_stats[task].unprocessed if task in self.task_stats else nothing\n"
                   "            current_samples = sorted(itertools.chain(v, carried_over), key=lambda s: s.absolute_time)\n"),
      ("        global_throughput = {}\n", "        global_throughput = {}\n        nothing = ()\n")])

# O6.10 the throughput records written by the sample post-processor carry the components of the value they are written for
_TP_LOOP = "            for absolute_time, relative_time, sample_type, throughput, throughput_unit in samples:\n"
_TP_PUT = '''                self.metrics_store.put_value_cluster_level(
                    name="throughput",
                    value=throughput,
                    unit=throughput_unit,
                    task=task.name,
                    operation=task.operation.name,
                    operation_type=task.operation.type,
                    sample_type=sample_type,
                    absolute_time=absolute_time,
                    relative_time=relative_time,
                    meta_data=meta_data,
                )
'''
_var("seed m14: throughput records stored with the sample type of the batch's last raw sample", "break", "O6.10",
     [("                    sample_type=sample_type,\n                    absolute_time=absolute_time,", "                    sample_type=sample.sample_type,\n                    absolute_time=absolute_time,")])
_var("throughput records always stored as normal samples", "break", "O6.10",
     [("                    sample_type=sample_type,\n                    absolute_time=absolute_time,", "                    sample_type=metrics.SampleType.Normal,\n                    absolute_time=absolute_time,")])
_var("throughput records stored with the type of the task's newest value of the batch", "break", "O6.10",
     [("                    sample_type=sample_type,\n                    absolute_time=absolute_time,", "                    sample_type=samples[-1][2],\n                    absolute_time=absolute_time,")])
_var("throughput records stored with absolute and relative time swapped", "break", "O6.10",
     [("                    absolute_time=absolute_time,\n                    relative_time=relative_time,\n                    meta_data=meta_data,\n                )\n        end = time.perf_counter()\n        self.logger.debug(\"Storing throughput",
       "                    absolute_time=relative_time,\n                    relative_time=absolute_time,\n                    meta_data=meta_data,\n                )\n        end = time.perf_counter()\n        self.logger.debug(\"Storing throughput")])
_var("a throughput of 0 (runner-supplied, or nothing completed yet) is not stored", "break", "O6.10", [(_TP_LOOP, _TP_LOOP + "                if not throughput:\n                    continue\n")])
_var("stored throughput truncated to an integer", "break", "O6.10", [("                    value=throughput,\n", "                    value=int(throughput),\n")])
_var("refactored: value unpacked inside the loop body", "keep", None,
     [(_TP_LOOP, "            for value in samples:\n                absolute_time, relative_time, sample_type, throughput, throughput_unit = value\n")])
_var("refactored: throughput records written by an extracted helper, components read by index, positional store arguments", "keep", None,
     [(_TP_LOOP + _TP_PUT, "            self._store_throughput(task, samples, meta_data)\n"),
      ("    def merge(self, *args):\n        result = {}\n", '''    def _store_throughput(self, task, values, meta_data):
        for value in values:
            self.metrics_store.put_value_cluster_level(
                "throughput", value[3], value[4], task.name, task.operation.name, task.operation.type, value[2], absolute_time=value[0], relative_time=value[1], meta_data=meta_data
            )

    def merge(self, *args):
        result = {}
''')])
_var("defect in a refactored shape: extracted helper stamps every record with the type of the first value of the task", "break", "O6.10",
     [(_TP_LOOP + _TP_PUT, "            self._store_throughput(task, samples, meta_data)\n"),
      ("    def merge(self, *args):\n        result = {}\n", '''    def _store_throughput(self, task, values, meta_data):
        sample_type = values[0][2] if values else None
        for value in values:
            self.metrics_store.put_value_cluster_level(
                "throughput", value[3], value[4], task.name, task.operation.name, task.operation.type, sample_type, absolute_time=value[0], relative_time=value[1], meta_data=meta_data
            )

    def merge(self, *args):
        result = {}
''')])


# ---- seeding round 6 (C06-m17): the groups of one batch must be DISTINCT lists - the interpreter now knows dict.fromkeys (value evaluated once, shared by every key), so the
# grouping / isolation obligations of O6.1 are decided on values for that spelling too instead of falling back to the structural reading
_GRP_OLD = '''        samples_per_task = {}
        # first we group all samples by task (operation).
        for sample in samples:
            k = sample.task
            if k not in samples_per_task:
                samples_per_task[k] = []
            samples_per_task[k].append(sample)
'''
_var("seed m17: every task of the batch shares one sample list (dict.fromkeys(..., []))", "break", "O6.1", [(_GRP_OLD, '''        samples_per_task = dict.fromkeys((sample.task for sample in samples), [])
        for sample in samples:
            samples_per_task[sample.task].append(sample)
''')])
_var("one list created before the grouping loop is stored under every new task key", "break", "O6.1", [(_GRP_OLD, '''        samples_per_task = {}
        group = []
        for sample in samples:
            k = sample.task
            if k not in samples_per_task:
                samples_per_task[k] = group
            samples_per_task[k].append(sample)
''')])
_var("groups pre-created as copies of one replicated list ([[]] * n zipped with the task keys)", "break", "O6.1", [(_GRP_OLD, '''        keys = list(dict.fromkeys(sample.task for sample in samples))
        samples_per_task = dict(zip(keys, [[]] * len(keys)))
        for sample in samples:
            samples_per_task[sample.task].append(sample)
''')])
_var("refactored: groups pre-created, one fresh list per key (dict comprehension over dict.fromkeys)", "keep", None, [(_GRP_OLD, '''        samples_per_task = {t: [] for t in dict.fromkeys(sample.task for sample in samples)}
        for sample in samples:
            samples_per_task[sample.task].append(sample)
''')])
_var("refactored: dict.fromkeys with an immutable placeholder, every group re-bound to a fresh list before the first append", "keep", None, [(_GRP_OLD, '''        samples_per_task = dict.fromkeys((sample.task for sample in samples), None)
        for sample in samples:
            if samples_per_task[sample.task] is None:
                samples_per_task[sample.task] = []
            samples_per_task[sample.task].append(sample)
''')])

# ---- benign C06-b12: the two per-task routines as GENERATORS (yield instead of append + return); a yielded 5-tuple is an emit site, the interpreter runs a generator's body when
# its result is consumed (_Gen)
_GEN_CTT = [("        task_throughput = []\n\n        if task not in self.task_stats:", "        if task not in self.task_stats:"),
            ('''                task_throughput.append(
                    (
                        sample.absolute_time,
                        sample.relative_time,
                        current.sample_type,
                        current.throughput,
                        # we calculate throughput per second
                        f"{sample.total_ops_unit}/s",
                    )
                )
''', '''                yield (
                    sample.absolute_time,
                    sample.relative_time,
                    current.sample_type,
                    current.throughput,
                    f"{sample.total_ops_unit}/s",
                )
'''), ('''            task_throughput.append(
                (
                    last_sample.absolute_time,
                    last_sample.relative_time,
                    current.sample_type,
                    current.throughput,
                    f"{last_sample.total_ops_unit}/s",
                )
            )

        return task_throughput
''', '''            yield (
                last_sample.absolute_time,
                last_sample.relative_time,
                current.sample_type,
                current.throughput,
                f"{last_sample.total_ops_unit}/s",
            )
''')]
_var("refactored: both per-task routines are generators, drained by calculate() (extend)", "keep", None, _GEN_CTT + [(_MTT_OLD, '''        for sample in current_samples:
            yield (sample.absolute_time, sample.relative_time, sample.sample_type, sample.throughput, f"{sample.total_ops_unit}/s")
''')])
_var("defect in a refactored shape: generator pass-through yields nothing for a throughput of 0", "break", "O6.4", _GEN_CTT + [(_MTT_OLD, '''        for sample in current_samples:
            if sample.throughput:
                yield (sample.absolute_time, sample.relative_time, sample.sample_type, sample.throughput, f"{sample.total_ops_unit}/s")
''')])
_var("defect in a refactored shape: generator yields the type of the bucket-closing sample", "break", "O6.3", [_GEN_CTT[0], (_GEN_CTT[1][0], _GEN_CTT[1][1].replace("current.sample_type", "sample.sample_type")), _GEN_CTT[2]] + [(_MTT_OLD, '''        for sample in current_samples:
            yield (sample.absolute_time, sample.relative_time, sample.sample_type, sample.throughput, f"{sample.total_ops_unit}/s")
''')])
