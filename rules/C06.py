"""C06 — throughput counts every operation exactly once, however samples are batched (DESIGN.md section 4, C06)."""
from __future__ import annotations

import ast

from sa import source
from sa.cfg import cfg_of, guards, negate
from sa.source import AnchorMissing, dotted, inline, is_self_attr, last_attr, local_defs, short, u, walk_body
from sa.sym import rat_equal, parse_expr

_D = "esrally/driver/driver.py"


def lazy_batch_rule(chk, rid, drv):
    """ThroughputCalculator.calculate merges new and carried-over samples with a LAZY, single-use chain. Two necessary conditions (shared with C07: throughput is computed from
    all samples): (1) the only consumer of that iterator is the materialising sort / list; (2) between creating the chain and materialising it none of its sources is mutated
    (a `.clear()` on the carried-over list empties what the chain has not read yet)."""
    TC = drv.cls("ThroughputCalculator")
    calc = drv.methods(TC).get("calculate")
    if calc is None:
        raise AnchorMissing("ThroughputCalculator.calculate")
    g = cfg_of(calc)
    lazy_defs = [n for n in walk_body(calc) if isinstance(n, ast.Assign) and isinstance(n.targets[0], ast.Name) and isinstance(n.value, ast.Call)
                 and dotted(n.value.func) in ("itertools.chain", "chain", "iter", "map", "filter", "zip")]
    for ld in lazy_defs:
        nm = ld.targets[0].id
        scope = source.enclosing(ld, (ast.For, ast.While)) or calc  # the binding lives for one iteration of the per-task loop
        uses = [x for x in ast.walk(scope) if isinstance(x, ast.Name) and x.id == nm and isinstance(x.ctx, ast.Load) and x not in list(ast.walk(ld)) and x.lineno >= ld.lineno]
        bad = [x for x in uses if not (isinstance(source.parent(x), ast.Call) and dotted(source.parent(x).func) in ("sorted", "list", "tuple") and source.parent(x).args and source.parent(x).args[0] is x)]
        ok = len(uses) >= 1 and not bad and len(uses) == 1
        chk.ob(rid, f"the lazily merged batch `{nm}` is consumed exactly once, by the materialising sort", ok, bad[0] if bad else (uses[0] if uses else calc),
               "" if ok else f"{len(uses)} read(s); `{short(source.enclosing_stmt(bad[0]), 60) if bad else ''}` consumes elements of the single-use iterator before / besides the sort: those samples are never counted",
               key=f"esrally/driver/driver.py:ThroughputCalculator.calculate:lazy-batch:{nm}")
        # sources of the chain and their aliases
        srcs = {u(a_) for a_ in ld.value.args}
        for n in ast.walk(scope):
            if isinstance(n, ast.Assign) and len(n.targets) == 1 and isinstance(n.targets[0], ast.Name) and u(n.value) in srcs:
                srcs.add(n.targets[0].id)
        mats = [source.parent(x) for x in uses if x not in bad]
        muts = []
        for n in ast.walk(scope):
            hit = None
            if isinstance(n, ast.Call) and isinstance(n.func, ast.Attribute) and n.func.attr in ("clear", "pop", "remove", "sort", "reverse", "insert") and u(n.func.value) in srcs:
                hit = n
            elif isinstance(n, ast.Delete) and any(u(t.value if isinstance(t, ast.Subscript) else t) in srcs for t in n.targets):
                hit = n
            elif isinstance(n, ast.Assign) and any(isinstance(t, ast.Subscript) and u(t.value) in srcs for t in n.targets):
                hit = n
            if hit is not None and mats:
                try:
                    between = g.path_exists(g.node_of(ld), g.node_of(hit), avoid=[g.node_of(m) for m in mats], edge_ok=g.normal_edge) and any(g.path_exists(g.node_of(hit), g.node_of(m), edge_ok=g.normal_edge) for m in mats)
                except KeyError:
                    between = False
                if between and g.node_of(hit) is not g.node_of(ld):
                    muts.append(hit)
        chk.ob(rid, f"no source of the lazy batch `{nm}` is mutated before it is materialised", not muts, muts[0] if muts else ld,
               "" if not muts else f"`{short(source.enclosing_stmt(muts[0]), 60)}` runs while the chain has not been read yet: the carried-over samples vanish from this round's throughput",
               key=f"esrally/driver/driver.py:ThroughputCalculator.calculate:lazy-batch-sources:{nm}")
    merges = [n for n in walk_body(calc) if isinstance(n, ast.Call) and dotted(n.func) in ("itertools.chain", "chain")]
    chk.ob(rid, "merged batch located", bool(lazy_defs) or bool(merges), calc, f"lazy locals: {sorted(n.targets[0].id for n in lazy_defs)}")


# ---------------------------------------------------------------------------------------------------------------------------------------
# obligations added after the defect hunt (F23 repaired; F49, F50, F51 known findings)

_PRODUCER_ID = ("client_id", "worker_id")  # fields / parameters that name the producer of a sample (Sample.client_id, UpdateSamples.client_id == worker id, JoinPointReached.worker_id)


def _self_root(e):
    """the `self.<attr>` node an attribute / subscript / call chain hangs off, or None."""
    n = e
    while isinstance(n, (ast.Attribute, ast.Subscript, ast.Call)):
        if is_self_attr(n):
            return n
        n = n.func if isinstance(n, ast.Call) else n.value
    return None


def _draining_properties(drv):
    """names of properties in the module whose getter EMPTIES a queue (get_nowait / popleft / pop): reading such a property consumes what it returns."""
    out = set()
    for c in drv.classes():
        for f in c.body:
            if isinstance(f, source.FUNC_TYPES) and any(dotted(d) == "property" for d in f.decorator_list) \
                    and any(isinstance(x, ast.Call) and (last_attr(x.func) in ("get_nowait", "popleft") or (last_attr(x.func) == "pop" and not any(isinstance(a_, ast.Constant) and isinstance(a_.value, str) for a_ in x.args)))
                            for x in ast.walk(f)):
                out.add(f.name)
    return out


def sampler_handover_rule(chk, drv):
    """F23. A worker's sampler object is the only place where the samples of the running load generator live until they are shipped. Overwriting the attribute that holds it
    (a fresh Sampler for the next round of an over-committed parallel element, or None at a join point) drops whatever the old one still holds: those operations are counted ZERO
    times by every throughput value. Necessary: on every path to such an overwrite the sampler has been drained, and nothing that lets a load generator add samples (starting one,
    blocking on one) lies between the drain and the overwrite."""
    chk.rule("O6.6", "a worker never drops a sampler that may still hold samples: every overwrite of the attribute holding the sampler (outside __init__) is preceded on every path by a "
             "drain (the method that ships <sampler>.<draining property> as UpdateSamples) with no executor activity (starting a load generator, blocking on its future) between "
             "the drain and the overwrite", 3,
             "a parallel element with fewer clients than tasks (several rounds between two join points): the load generator finishes between the periodic drain of the wake-up "
             "handler and its done() check; the samples added in that window are never shipped, their operations are counted zero times")
    W = drv.cls("Worker")
    wm = drv.methods(W)
    drv.cls("UpdateSamples")
    dprops = _draining_properties(drv)
    if not dprops:
        raise AnchorMissing("a draining property (getter empties a queue) in esrally/driver/driver.py")
    # role: drain methods of the worker and the attribute that holds the sampler
    drains = {}
    for name, f in wm.items():
        fdefs = local_defs(f)
        for c in walk_body(f):
            if not (isinstance(c, ast.Call) and last_attr(c.func) == "send"):
                continue
            for msg in c.args:
                if isinstance(msg, ast.Call) and last_attr(msg.func) == "UpdateSamples":
                    for a_ in list(msg.args) + [k.value for k in msg.keywords]:
                        for x in ast.walk(source.inline_node(a_, fdefs)):
                            if isinstance(x, ast.Attribute) and x.attr in dprops and is_self_attr(x.value):
                                drains[name] = x.value.attr
    attrs = sorted(set(drains.values()))
    chk.ob("O6.6", "drain method of the worker and the attribute holding the sampler located", len(attrs) == 1, W,
           f"drain method(s) {sorted(drains)} ship self.{attrs[0] if attrs else '?'}.<{'/'.join(sorted(dprops))}> as UpdateSamples")
    if len(attrs) != 1:
        raise AnchorMissing("Worker method that ships self.<sampler>.<draining property> as UpdateSamples (exactly one sampler attribute)")
    sattr = attrs[0]
    # a worker method that calls a drain method on every normal path is a drain itself (extracted helper)
    grown = True
    while grown:
        grown = False
        for name, f in wm.items():
            if name in drains or name == "__init__":
                continue
            gf = cfg_of(f)
            dn = [gf.node_of(c) for c in walk_body(f) if isinstance(c, ast.Call) and is_self_attr(c.func) and c.func.attr in drains]
            if dn and gf.must_pass(gf.entry, dn, normal_only=True):
                drains[name] = sattr
                grown = True
    # role: the attribute(s) holding the future of the running load generator
    futures = {t.attr for f in wm.values() for n in walk_body(f) if isinstance(n, ast.Assign) and isinstance(n.value, ast.Call) and last_attr(n.value.func) == "submit"
               for t in n.targets if is_self_attr(t)}

    def activity(c):
        if not isinstance(c, ast.Call) or not isinstance(c.func, ast.Attribute):
            return False
        if c.func.attr == "submit":
            return True
        if c.func.attr in ("result", "exception") and is_self_attr(c.func.value) and c.func.value.attr in futures:
            to = source.arg_of(c, 0, "timeout")
            return not (to is not None and source.is_const(to, 0))  # a poll with timeout=0 does not wait for the load generator
        return False

    n_over = 0
    for name, f in wm.items():
        if name == "__init__":
            continue
        over = []
        for n in walk_body(f):
            tg = n.targets if isinstance(n, (ast.Assign, ast.Delete)) else ([n.target] if isinstance(n, (ast.AugAssign, ast.AnnAssign)) else [])
            if any(is_self_attr(x, sattr) and isinstance(x.ctx, (ast.Store, ast.Del)) for t in tg for x in ast.walk(t)):
                over.append(n)
        if not over:
            continue
        g = cfg_of(f)
        dnodes = [g.node_of(c) for c in walk_body(f) if isinstance(c, ast.Call) and is_self_attr(c.func) and c.func.attr in drains]
        anodes = [g.node_of(c) for c in walk_body(f) if activity(c)]
        for s in over:
            n_over += 1
            sn = g.node_of(s)
            dominated = bool(dnodes) and g.dominated_by_nodes(sn, dnodes)
            gap = [x for x in anodes if x is not sn and x not in dnodes and g.path_exists(x, sn, avoid=dnodes)]
            val = getattr(s, "value", None)
            kind = "dropped" if val is None or (source.is_const(val) and val.value is None) else "new-sampler"
            ok = dominated and not gap
            chk.ob("O6.6", f"Worker.{name}: the sampler is drained before it is {'replaced by a new one' if kind == 'new-sampler' else 'dropped'}", ok, s,
                   "" if ok else (f"`{short(s, 70)}` is reachable without a call of {sorted(drains)}: samples the finished load generator added after the last periodic drain are lost" if not dominated
                                  else f"`{short(gap[0].ast, 60)}` runs between the drain and `{short(s, 50)}`: the load generator can add samples that nobody ships"),
                   key=f"{_D}:Worker.{name}:drain-before-sampler-overwrite:{kind}")
    if n_over == 0:
        raise AnchorMissing(f"an assignment of self.{sattr} in a Worker method other than __init__")


def passthrough_decision_rule(chk, drv, calc, ctt, mtt, tp_field):
    """F49. Whether a task's throughput is runner-supplied (pass-through) or calculated is a property of the TASK. A decision taken anew for every batch from the batch alone cannot be
    stable: a failed request of a pass-through task carries throughput None, so a batch that starts with (or consists of) such a sample is decided differently from the next one.
    Necessary: the decision consults state kept per task across calls (sticky) and does not hinge on one positional sample of the batch."""
    from sa import pat
    chk.rule("O6.7", "pass-through or calculate is decided per TASK and stays decided: the dispatch condition consults calculator state kept under the task key across calls and does not "
             "read the runner-supplied throughput of one positional sample of the current batch", 1,
             "a task whose runner supplies throughput (wait-for-transform) with one failed request (throughput None): cuts 3 / 2|1 emit a (None, 'ops/s') record, cut 1|2 discards the "
             "supplied 15000 and reports a calculated value, cut 1|1|1 inserts a calculated 0.0 - same samples, different results")
    calls = {f_.name: [c for c in walk_body(calc) if isinstance(c, ast.Call) and is_self_attr(c.func, f_.name)] for f_ in (ctt, mtt)}
    if not calls[ctt.name] or not calls[mtt.name]:
        raise AnchorMissing("calls of calculate_task_throughput and map_task_throughput in ThroughputCalculator.calculate")
    cdefs = local_defs(calc)
    c0 = calls[ctt.name][0]
    loop = source.enclosing(c0, (ast.For, ast.While))
    if loop is None or source.enclosing_func(loop) is not calc:
        loop = None
    key_arg = source.bind_args(c0, ctt).get(source.params_of(ctt)[1])
    if key_arg is None:
        raise AnchorMissing("task key passed to calculate_task_throughput")
    key_txt = inline(key_arg, cdefs)
    facts = []
    for c in calls[ctt.name] + calls[mtt.name]:
        for f_ in pat.fact_nodes(c, stop=loop):
            if not any(f_ is x for x in facts):
                facts.append(f_)
    if not facts:
        raise AnchorMissing("the condition that selects calculate_task_throughput / map_task_throughput in calculate()")
    inl, seen_txt = [], set()
    for f_ in facts:
        e = source.inline_node(f_, cdefs)
        txt = {u(e), u(source.inline_node(negate(f_), cdefs))}  # the two arms see the same test, one of them negated
        if not (txt & seen_txt):
            inl.append(e)
        seen_txt |= txt
    state, positional = [], []
    for e in inl:
        for n in ast.walk(e):
            if isinstance(n, ast.Compare) and len(n.ops) == 1 and isinstance(n.ops[0], (ast.In, ast.NotIn)) and u(n.left) == key_txt and _self_root(n.comparators[0]) is not None:
                state.append(n)
            elif isinstance(n, ast.Subscript) and u(n.slice) == key_txt and _self_root(n.value) is not None:
                state.append(n)
            elif isinstance(n, ast.Call) and isinstance(n.func, ast.Attribute) and n.func.attr == "get" and n.args and u(n.args[0]) == key_txt and _self_root(n.func.value) is not None:
                state.append(n)
            if isinstance(n, ast.Attribute) and n.attr == tp_field:
                b = n.value
                one = (isinstance(b, ast.Subscript) and not isinstance(b.slice, ast.Slice) and
                       (isinstance(b.slice, ast.Constant) or (isinstance(b.slice, ast.UnaryOp) and isinstance(b.slice.operand, ast.Constant)))) or \
                      (isinstance(b, ast.Call) and dotted(b.func) in ("next", "min", "max"))
                if one:
                    positional.append(n)
    ok = bool(state) and not positional
    site = source.enclosing_stmt(facts[0]) if isinstance(facts[0], ast.AST) and source.parent(facts[0]) is not None else c0
    chk.ob("O6.7", "the pass-through decision is taken per task (sticky), not per batch from one positional sample", ok, site,
           "" if ok else ("decided by " + " / ".join(f"`{short(e, 90)}`" for e in inl) + ": " +
                          (f"reads `{u(positional[0])}` - whichever sample sorts first in THIS batch decides for the whole batch; " if positional else "") +
                          ("no state kept under the task key is consulted, so a later batch of the same task can be decided differently "
                           "(failed request of a pass-through task: throughput None)" if not state else "")),
           key=f"{_D}:ThroughputCalculator.calculate:pass-through-decision-per-task")


def unit_source_rule(chk, drv, TS, TC, ctt, emits, L, stats_var):
    """F50. The unit of a calculated value names what the running count counts (docs, pages, ops ...). The sample that happens to close a bucket, or to be the last one of a batch, may be
    a failed request, which is recorded with weight 0 and the placeholder unit 'ops'. Necessary: the unit does not come from that sample but from a source that is independent of where the
    bucket / the batch ends (task-level state that not every sample overwrites)."""
    chk.rule("O6.8", "the unit of a calculated throughput value does not come from the sample that happens to close the bucket or to end the batch (a failed request carries the placeholder "
             "unit 'ops'): it is read from a batch-independent source, e.g. per-task state that is not overwritten by every sample", 2,
             "a bulk task (docs) with one failed request under on-error=continue: if that sample closes a bucket / ends a batch the value for N docs is stored as 'ops/s'; which record is "
             "hit, and the unit the summary report shows, depends on the cut")
    batch = source.params_of(ctt)[2] if len(source.params_of(ctt)) > 2 else None
    if batch is None:
        raise AnchorMissing("batch parameter of calculate_task_throughput")
    # names that hold one sample of the batch: loop variables over the batch, positional elements of it, and copies of those
    sampled = set()
    changed = True
    while changed:
        changed = False
        for n in walk_body(ctt):
            new = set()
            if isinstance(n, (ast.For, ast.comprehension)) and any(isinstance(x, ast.Name) and x.id == batch for x in ast.walk(n.iter)):
                new = {x.id for x in ast.walk(n.target) if isinstance(x, ast.Name)}
            elif isinstance(n, ast.Assign):
                v = n.value
                element = isinstance(v, ast.Subscript) and isinstance(v.value, ast.Name) and v.value.id == batch and not isinstance(v.slice, ast.Slice)
                if (isinstance(v, ast.Name) and v.id in sampled) or element:
                    new = {t.id for t in n.targets if isinstance(t, ast.Name)}
            if new - sampled:
                sampled |= new
                changed = True
    if not sampled:
        raise AnchorMissing("sample loop over the batch in calculate_task_throughput")
    for e in emits:
        unit = e.args[0].elts[4]
        srcs = [v.value for v in unit.values if isinstance(v, ast.FormattedValue)] if isinstance(unit, ast.JoinedStr) else [unit]
        bad = [x for s in srcs for x in ast.walk(s) if (isinstance(x, ast.Name) and x.id in sampled) or
               (isinstance(x, ast.Subscript) and isinstance(x.value, ast.Name) and x.value.id == batch)]
        # a unit kept in the per-task state must not be overwritten by every sample either (that is the last sample again)
        blind = []
        for s in srcs:
            if isinstance(s, ast.Attribute) and isinstance(s.value, ast.Name) and s.value.id == stats_var:
                for n in ast.walk(TC):
                    if isinstance(n, ast.Assign) and any(isinstance(t, ast.Attribute) and t.attr == s.attr and isinstance(t.value, ast.Name) and t.value.id in ("self", stats_var) for t in n.targets):
                        fn = source.enclosing_func(n)
                        if fn is None or fn.name == "__init__":
                            continue
                        if not guards(n, path_sensitive=True):
                            blind.append(n)
        where = "bucket-closing-sample" if L in list(source.ancestors(e)) else "last-sample-of-batch"
        ok = bool(srcs) and not bad and not blind
        chk.ob("O6.8", f"unit of the value emitted {'when a bucket closes' if where == 'bucket-closing-sample' else 'by the final-sample rule'} comes from a batch-independent source", ok, e,
               "" if ok else (f"`{u(unit)}`: `{u(bad[0])}` is the sample that {'closes the bucket' if where == 'bucket-closing-sample' else 'ends the batch'}; "
                              "a failed request there (weight 0, unit 'ops') relabels the task's docs/pages as 'ops/s'" if bad else
                              f"`{short(blind[0], 60)}` overwrites the per-task unit with every sample: the last sample decides again"),
               key=f"{_D}:ThroughputCalculator.calculate_task_throughput:unit-source:{where}")


def low_water_mark_rule(chk, drv, TS, TC):
    """F51. Workers flush on their own timers, so at any post-processing call the samples of different workers reach up to different times. A bucket may only be closed up to the time
    ALL producers of the task have reported (low-water mark); closing it at the newest sample of ANY client misses the operations of slower workers for good (the stored value stays,
    late samples older than the current interval never complete a bucket). Necessary: either the calculator distinguishes the producers of the samples it aggregates, or the driver holds raw
    samples back by a per-producer watermark before it hands them to post-processing. Neither is possible without reading the producer's identity on that path."""
    from sa.classes import is_logging_call
    chk.rule("O6.9", "the time that closes a bucket is a low-water mark over the producers (clients / workers) of the task: the interval update inside the calculator depends on which "
             "client produced a sample, or the driver holds raw samples back by per-producer state before handing them to post-processing", 1,
             "two workers whose flushes reach the driver up to t=30 and t=25: the values for t in (25,30] miss the second worker's operations (18333 instead of 19967 docs/s) and stay; "
             "at the end of the task the late samples remain in `unprocessed` for good")
    sample_cls = drv.cls("Sample")
    init = drv.methods(sample_cls).get("__init__")
    fields = {t.attr for n in walk_body(init) if isinstance(n, ast.Assign) for t in n.targets if is_self_attr(t)} if init is not None else set()
    ids = [f_ for f_ in _PRODUCER_ID if f_ in fields]
    if not ids:
        raise AnchorMissing("producer identity field (client_id) of Sample")
    writers = [n for n in ast.walk(TS) if isinstance(n, (ast.Assign, ast.AugAssign)) and any(is_self_attr(t, "interval") for t in (n.targets if isinstance(n, ast.Assign) else [n.target]))
               and source.enclosing_func(n) is not None and source.enclosing_func(n).name != "__init__"]
    if not writers:
        raise AnchorMissing("the TaskStats method that advances the interval")

    def in_logging(x):
        return any(is_logging_call(a_) for a_ in source.ancestors(x))

    def id_reads(root):
        return [x for x in ast.walk(root) if isinstance(x, ast.Attribute) and isinstance(x.ctx, ast.Load) and x.attr in _PRODUCER_ID and not is_self_attr(x) and not in_logging(x)]

    # (a) inside the calculator
    in_calc = id_reads(TC)
    # (b) upstream: the driver method(s) that hand the received raw samples to the post-processor
    pp_classes = {source.enclosing_class(n).name for n in ast.walk(drv.tree) if isinstance(n, ast.Assign) and isinstance(n.value, ast.Call) and last_attr(n.value.func) == TC.name
                  and any(is_self_attr(t) for t in n.targets) and source.enclosing_class(n) is not None}
    holders = {}
    for n in ast.walk(drv.tree):
        if isinstance(n, ast.Assign) and isinstance(n.value, ast.Call) and last_attr(n.value.func) in pp_classes and source.enclosing_class(n) is not None:
            for t in n.targets:
                if is_self_attr(t):
                    holders.setdefault(source.enclosing_class(n), set()).add(t.attr)
    if not holders:
        raise AnchorMissing("the attribute holding the sample post-processor (owner of the ThroughputCalculator)")
    held_back = []
    n_hand = 0
    for cls_, hattrs in holders.items():
        cm = drv.methods(cls_)
        # per-producer state of that class: attributes stored under a key that is a producer identity
        keyed = set()
        for n in ast.walk(cls_):
            if isinstance(n, ast.Subscript) and isinstance(n.ctx, ast.Store) and is_self_attr(n.value):
                if any((isinstance(x, ast.Attribute) and x.attr in _PRODUCER_ID) or (isinstance(x, ast.Name) and x.id in _PRODUCER_ID) for x in ast.walk(n.slice)):
                    keyed.add(n.value.attr)
        for name, f in cm.items():
            if not any(isinstance(c, ast.Call) and is_self_attr(c.func) and c.func.attr in hattrs for c in walk_body(f)):
                continue
            n_hand += 1
            todo, seen = [f], set()
            while todo:
                h = todo.pop()
                if h.name in seen or len(seen) > 8:
                    continue
                seen.add(h.name)
                held_back += id_reads(h)
                held_back += [x for x in ast.walk(h) if is_self_attr(x) and isinstance(x.ctx, ast.Load) and x.attr in keyed and not in_logging(x)]
                todo += [cm[c.func.attr] for c in walk_body(h) if isinstance(c, ast.Call) and is_self_attr(c.func) and c.func.attr in cm]
    if n_hand == 0:
        raise AnchorMissing("the driver method that hands raw samples to the sample post-processor")
    ok = bool(in_calc) or bool(held_back)
    w = writers[0]
    fn = source.enclosing_func(w)
    chk.ob("O6.9", "bucket-closing time is a low-water mark over the task's producers", ok, w,
           (f"producer identity consulted: `{short(source.enclosing_stmt((in_calc or held_back)[0]), 70)}`" if ok else
            f"`{short(w, 70)}` advances with the newest sample of ANY client: neither ThroughputCalculator nor the hand-over of raw samples to post-processing reads "
            f"{'/'.join(_PRODUCER_ID)} or per-producer state, so a bucket is closed before slower workers' samples for that time span have arrived"),
           key=f"{_D}:ThroughputCalculator.TaskStats.{fn.name}:bucket-closing-time-low-water-mark")


def run(chk):
    repo = chk.repo
    drv = repo.module(_D)
    chk.use(drv)
    chk.explanation = (
        "Decides the conservation skeleton of the throughput calculation: every sample's operations are added to the running count exactly once per "
        "invocation; each loop iteration ends in exactly one of {finish a bucket, keep the sample as unprocessed}; carried total and unprocessed list are "
        "only written together by the bucket-finishing routine; the unprocessed list is merged into the next batch and cleared once merged; interval is "
        "monotone and division is guarded; the emitted sample type is the monotone per-task type; runner throughput is passed through on `is None` dispatch; unit is '<ops>/s'. "
        "After the defect hunt: a worker drains its sampler before every overwrite of it (O6.6); necessary conditions for a per-task sticky pass-through decision (O6.7), a "
        "batch-independent unit source (O6.8) and a low-water-mark bucket-closing time over the producers (O6.9) - the last three are falsified on the pinned tree (known findings F49-F51)."
    )
    chk.not_decided = "equality of the emitted numbers with ops/elapsed for all streams (numeric), bucket boundaries under out-of-order arrival."
    TC = drv.cls("ThroughputCalculator")
    TS = drv.cls("ThroughputCalculator.TaskStats")
    tm = drv.methods(TC)
    sm = drv.methods(TS)
    calc = tm.get("calculate")
    ctt = tm.get("calculate_task_throughput")
    mtt = tm.get("map_task_throughput")
    if not (calc and ctt and mtt):
        raise AnchorMissing("ThroughputCalculator.calculate / calculate_task_throughput / map_task_throughput")
    g = cfg_of(ctt)
    defs = local_defs(ctt)

    # the stats object local
    stats_var = None
    for n in walk_body(ctt):
        if isinstance(n, ast.Assign) and isinstance(n.targets[0], ast.Name) and isinstance(n.value, ast.Subscript) and is_self_attr(n.value.value, "task_stats"):
            stats_var = n.targets[0].id
    if stats_var is None:
        raise AnchorMissing("local bound to self.task_stats[task] in calculate_task_throughput")
    loops = [n for n in walk_body(ctt) if isinstance(n, ast.For)]
    if not loops:
        raise AnchorMissing("sample loop in calculate_task_throughput")
    L = loops[0]
    svar = L.target.id if isinstance(L.target, ast.Name) else None
    Lh = g.node_of(L)

    # ---- O6.1 conservation --------------------------------------------------------------------------------------
    chk.rule("O6.1", "running count starts from the carried total; count += sample.total_ops exactly once per iteration, unconditionally; each iteration ends in exactly "
             "one of {finish bucket(count), append sample to unprocessed}; carried total and unprocessed are written only by the finishing routine, together; "
             "unprocessed is merged into the next batch iff the task has state and is cleared once merged", 8,
             "any cut of the sample stream inside a bucket: operations are lost or counted twice, so throughput depends on batching")
    cnt_inits = [n for n in walk_body(ctt) if isinstance(n, ast.Assign) and isinstance(n.targets[0], ast.Name) and u(n.value) == f"{stats_var}.total_count"]
    if not cnt_inits:
        raise AnchorMissing("running count initialised from <stats>.total_count")
    cvar = cnt_inits[0].targets[0].id
    ok = len(cnt_inits) == 1 and g.dominated_by_nodes(Lh, [g.node_of(cnt_inits[0])]) and not guards(cnt_inits[0])
    chk.ob("O6.1", "count starts from the carried total", ok, cnt_inits[0], short(cnt_inits[0], 60))
    adds = [n for n in walk_body(ctt) if isinstance(n, ast.AugAssign) and isinstance(n.target, ast.Name) and n.target.id == cvar]
    ok = len(adds) == 1 and isinstance(adds[0].op, ast.Add) and u(adds[0].value) == f"{svar}.total_ops" and source.parent(adds[0]) is L and not guards(adds[0], stop=L)
    chk.ob("O6.1", "count += sample.total_ops once per iteration, unconditionally", ok, adds[0] if adds else L, f"{len(adds)} update(s) of {cvar}: {[short(a, 50) for a in adds]}")
    other_cnt = [n for n in walk_body(ctt) if isinstance(n, ast.Assign) and any(isinstance(t, ast.Name) and t.id == cvar for t in n.targets) and n not in cnt_inits]
    chk.ob("O6.1", "no other writer of the running count", not other_cnt, other_cnt[0] if other_cnt else ctt, "")
    # iteration ends in exactly one of finish / keep
    fin_calls = [n for n in walk_body(ctt) if isinstance(n, ast.Call) and u(n.func) == f"{stats_var}.finish_bucket"]
    keep_calls = [n for n in walk_body(ctt) if isinstance(n, ast.Call) and u(n.func) == f"{stats_var}.unprocessed.append"]
    fin_in = [c for c in fin_calls if L in list(source.ancestors(c))]
    keep_in = [c for c in keep_calls if L in list(source.ancestors(c))]
    starts = g.edge_targets(Lh, "iter")
    nodes = [g.node_of(c) for c in fin_in + keep_in]
    ok = bool(fin_in) and bool(keep_in) and all(Lh.id not in g.reachable([s], avoid=nodes, edge_ok=g.normal_edge) for s in starts)
    chk.ob("O6.1", "every iteration finishes a bucket or keeps the sample", ok, L, f"finish sites={len(fin_in)} keep sites={len(keep_in)}" + ("" if ok else "; an iteration can reach the back edge doing neither (sample lost)"))
    both = any(g.path_exists(g.node_of(a), g.node_of(b), avoid=[Lh]) or g.path_exists(g.node_of(b), g.node_of(a), avoid=[Lh]) for a in fin_in for b in keep_in)
    chk.ob("O6.1", "never both in one iteration", not both, keep_in[0] if keep_in else L, "finish and keep are on disjoint paths" if not both else "a sample can be counted in the carried total AND kept as unprocessed")
    for c in keep_in:
        ok = len(c.args) == 1 and isinstance(c.args[0], ast.Name) and c.args[0].id == svar
        chk.ob("O6.1", "the kept element is the current sample", ok, c, short(c, 60))
    for c in fin_calls:
        ok = len(c.args) == 1 and isinstance(c.args[0], ast.Name) and c.args[0].id == cvar
        chk.ob("O6.1", "bucket finished with the running count", ok, c, short(c, 60))
    # finish_bucket writes carried total := argument and unprocessed := []
    fb = sm.get("finish_bucket")
    if fb is None:
        raise AnchorMissing("TaskStats.finish_bucket")
    gfb = cfg_of(fb)
    p = source.params_of(fb)[1]
    tot = [n for n in walk_body(fb) if isinstance(n, ast.Assign) and any(is_self_attr(t, "total_count") for t in n.targets)]
    unp = [n for n in walk_body(fb) if isinstance(n, ast.Assign) and any(is_self_attr(t, "unprocessed") for t in n.targets)]
    ok = len(tot) == 1 and isinstance(tot[0].value, ast.Name) and tot[0].value.id == p and not guards(tot[0])
    chk.ob("O6.1", "finish: carried total := argument", ok, tot[0] if tot else fb, "")
    ok = len(unp) == 1 and isinstance(unp[0].value, ast.List) and not unp[0].value.elts and not guards(unp[0])
    chk.ob("O6.1", "finish: unprocessed := []", ok, unp[0] if unp else fb, "")
    # who may write total_count / unprocessed / has_samples
    for attr in ("total_count", "unprocessed"):
        for n in ast.walk(drv.tree):
            if isinstance(n, (ast.Assign, ast.AugAssign)):
                tg = n.targets if isinstance(n, ast.Assign) else [n.target]
                for t in tg:
                    if isinstance(t, ast.Attribute) and t.attr == attr and source.enclosing_class(n) is not None and source.enclosing_class(n).name in ("TaskStats", "ThroughputCalculator"):
                        fn = source.enclosing_func(n)
                        if fn is not None and fn.name in ("__init__",) and source.enclosing_class(n) is TS:
                            continue
                        if fn is fb:
                            continue
                        if attr == "unprocessed" and fn is ctt and isinstance(n, ast.Assign) and isinstance(n.value, ast.List) and not n.value.elts and not guards(n) \
                                and g.dominated_by_nodes(Lh, [g.node_of(n)]):
                            chk.ob("O6.1", "unprocessed cleared once merged (before the loop)", True, n, short(n, 60))
                            continue
                        chk.ob("O6.1", f"{attr} written outside the bucket-finishing routine", False, n,
                               f"{short(n, 60)} — carried total and unprocessed must change together (conservation)")
    # merged into next batch: calculate() chains unprocessed when the task has state
    merges = [n for n in walk_body(calc) if isinstance(n, ast.Call) and last_attr(n.func) == "chain" and any("unprocessed" in u(a) for a in n.args)]
    ok = False
    detail = "no chain(new samples, <stats>.unprocessed)"
    if merges:
        m = merges[0]
        gs = guards(m)
        ok = len(m.args) == 2 and any(pol and isinstance(t, ast.Compare) and isinstance(t.ops[0], ast.In) and is_self_attr(t.comparators[0], "task_stats") for t, pol in gs)
        detail = f"{short(m, 70)} under {[(u(t), p) for t, p in gs]}"
    chk.ob("O6.1", "unprocessed merged into the next batch when the task has state", ok, merges[0] if merges else calc, detail)
    # cleared once merged: either the merge site or the per-task routine resets unprocessed before appending again
    cleared = [n for n in walk_body(ctt) if isinstance(n, ast.Assign) and any(u(t) == f"{stats_var}.unprocessed" for t in n.targets) and isinstance(n.value, ast.List) and not n.value.elts
               and not guards(n) and g.dominated_by_nodes(Lh, [g.node_of(n)])]
    cleared += [n for n in walk_body(calc) if isinstance(n, ast.Assign) and any("unprocessed" in u(t) for t in n.targets) and isinstance(n.value, ast.List) and not n.value.elts]
    chk.ob("O6.1", "carried-over samples are not kept a second time (list cleared once merged)", bool(cleared), cleared[0] if cleared else ctt,
           "reset before the loop re-appends" if cleared else "a batch that completes no bucket re-appends carried-over samples to the list that still holds them: they are counted twice by the next batch",
           key=f"{_D}:ThroughputCalculator.calculate_task_throughput:unprocessed-cleared-once-merged")
    # the batch is sorted by time before processing; the per-task routine receives that list
    srt = [n for n in walk_body(calc) if isinstance(n, ast.Call) and dotted(n.func) == "sorted"]
    ok = bool(srt) and any(k.arg == "key" and "absolute_time" in u(k.value) for k in srt[0].keywords)
    chk.ob("O6.1", "batch sorted by absolute time", ok, srt[0] if srt else calc, "")
    lazy_batch_rule(chk, "O6.1", drv)
    # every sample of the batch lands in its task's group, wherever it stands in the batch (samples of several tasks / workers are interleaved): the grouping loop appends each
    # sample unconditionally; itertools.groupby only groups CONSECUTIVE elements and is accepted only over input sorted by the same key
    sp = source.params_of(calc)[1]
    gl = [n for n in walk_body(calc) if isinstance(n, ast.For) and u(n.iter) == sp and isinstance(n.target, ast.Name)]
    ok = False
    detail = "no loop over the batch that appends each sample to its task's group"
    if gl:
        sv_ = gl[0].target.id
        gdefs = {n.targets[0].id: n.value for n in ast.walk(gl[0]) if isinstance(n, ast.Assign) and len(n.targets) == 1 and isinstance(n.targets[0], ast.Name)}
        apps_ = [c for c in ast.walk(gl[0]) if isinstance(c, ast.Call) and last_attr(c.func) == "append" and c.args and u(c.args[0]) == sv_ and isinstance(c.func.value, ast.Subscript)]
        ok = len(apps_) == 1 and not guards(apps_[0], stop=gl[0]) and source.inline(apps_[0].func.value.slice, gdefs) == f"{sv_}.task" \
            and not any(isinstance(x, (ast.Break, ast.Continue, ast.Return)) for x in ast.walk(gl[0]))
        detail = f"{short(apps_[0], 60)}" if apps_ else detail
    gb = [c for c in walk_body(calc) if isinstance(c, ast.Call) and dotted(c.func) in ("itertools.groupby", "groupby")]
    if gb and not ok:
        srt_in = gb[0].args and isinstance(gb[0].args[0], ast.Call) and dotted(gb[0].args[0].func) == "sorted" and u(source.arg_of(gb[0].args[0], None, "key")) == u(source.arg_of(gb[0], 1, "key"))
        ok = bool(srt_in)
        detail = short(gb[0], 70) + ("" if ok else " — groupby over the batch in arrival order: a later run of the same task overwrites the earlier one, those samples are never counted")
    chk.ob("O6.1", "grouping by task keeps every sample of the batch (interleaved tasks included)", ok, gl[0] if gl else (gb[0] if gb else calc), detail,
           key=f"{_D}:ThroughputCalculator.calculate:grouping-keeps-every-sample")
    # the per-task state (carried total, start time, sticky sample type) lives as long as the calculator: entries are created on first sight and never removed
    rem = [n for f_ in drv.methods(TC).values() for n in walk_body(f_) if
           (isinstance(n, ast.Delete) and any(isinstance(t, ast.Subscript) and is_self_attr(t.value, "task_stats") for t in n.targets)) or
           (isinstance(n, ast.Call) and isinstance(n.func, ast.Attribute) and n.func.attr in ("pop", "popitem", "clear") and is_self_attr(n.func.value, "task_stats")) or
           (isinstance(n, ast.Assign) and any(is_self_attr(t, "task_stats") for t in n.targets) and source.enclosing_func(n).name != "__init__")]
    chk.ob("O6.1", "per-task state is never dropped while the calculator lives", not rem, rem[0] if rem else calc,
           "" if not rem else f"`{short(rem[0], 60)}`: a task that pauses for one batch restarts from count 0 while its start time is kept: later values are (operations since the eviction) / (time since task start)",
           key=f"{_D}:ThroughputCalculator:task-state-never-dropped")

    # ---- O6.2 monotone interval / safe division ------------------------------------------------------------------------------
    chk.rule("O6.2", "interval := max(t - start, interval); throughput is evaluated only under interval > 0", 3, "division by zero / negative or shrinking interval")
    ui = sm.get("update_interval")
    if ui is None:
        raise AnchorMissing("TaskStats.update_interval")
    asg = [n for n in walk_body(ui) if isinstance(n, ast.Assign) and any(is_self_attr(t, "interval") for t in n.targets)]
    ok = False
    if len(asg) == 1 and isinstance(asg[0].value, ast.Call) and dotted(asg[0].value.func) == "max" and len(asg[0].value.args) == 2:
        a = [u(x) for x in asg[0].value.args]
        par = source.params_of(ui)[1]
        ok = "self.interval" in a and any(rat_equal(x, parse_expr(f"{par} - self.start_time")) for x in asg[0].value.args)
    chk.ob("O6.2", "interval = max(t - start_time, interval)", ok, asg[0] if asg else ui, short(asg[0], 70) if asg else "")
    others = [n for n in ast.walk(TS) if isinstance(n, (ast.Assign, ast.AugAssign)) and any(is_self_attr(t, "interval") for t in (n.targets if isinstance(n, ast.Assign) else [n.target]))
              and source.enclosing_func(n).name not in ("__init__", "update_interval")]
    chk.ob("O6.2", "no other writer of interval", not others, others[0] if others else ui, "")
    for name in ("can_calculate_throughput", "can_add_final_throughput_sample"):
        f = sm.get(name)
        if f is None:
            raise AnchorMissing(f"TaskStats.{name}")
        rets = [n for n in walk_body(f) if isinstance(n, ast.Return)]
        ok = len(rets) == 1 and isinstance(rets[0].value, ast.BoolOp) and isinstance(rets[0].value.op, ast.And) and any(u(v) in ("self.interval > 0", "0 < self.interval") for v in rets[0].value.values)
        chk.ob("O6.2", f"{name} requires interval > 0", ok, f, short(rets[0], 70) if rets else "")
    # throughput property read only behind a finish in the same branch
    for n in walk_body(ctt):
        if isinstance(n, ast.Attribute) and n.attr == "throughput" and isinstance(n.value, ast.Name) and n.value.id == stats_var:
            gs = guards(n)
            ok = any(pol and isinstance(t, ast.Call) and last_attr(t.func) in ("can_calculate_throughput",) for t, pol in gs) or \
                any(pol and "can_add_final_throughput_sample" in u(t) for t, pol in gs)
            chk.ob("O6.2", "throughput read only under a can_* guard", ok, n, f"guards {[(u(t), p) for t, p in gs]}")

    # ---- O6.3 sample type only rises -------------------------------------------------------------------------------------------
    chk.rule("O6.3", "the per-task sample type only rises (guarded by <); the has-value flag is cleared on a rise and set by finish; the emitted sample type is the "
             "per-task (monotone) type; the final-sample rule runs after the loop", 5,
             "successive throughput values go back to warm-up, or a task with normal samples gets no normal throughput value")
    mu = sm.get("maybe_update_sample_type")
    if mu is None:
        raise AnchorMissing("TaskStats.maybe_update_sample_type")
    par = source.params_of(mu)[1]
    st_assigns = [n for n in walk_body(mu) if isinstance(n, ast.Assign) and any(is_self_attr(t, "sample_type") for t in n.targets)]
    ok = False
    if len(st_assigns) == 1:
        gs = guards(st_assigns[0])
        ok = len(gs) == 1 and gs[0][1] and u(gs[0][0]) in (f"self.sample_type < {par}", f"{par} > self.sample_type") and u(st_assigns[0].value) == par
    chk.ob("O6.3", "sample type replaced only by a greater one", ok, st_assigns[0] if st_assigns else mu, short(st_assigns[0], 60) if st_assigns else "")
    flag_clears = [n for n in walk_body(mu) if isinstance(n, ast.Assign) and any(is_self_attr(t, "has_samples_in_sample_type") for t in n.targets) and source.is_const(n.value, False)]
    ok = bool(flag_clears) and bool(st_assigns) and guards(flag_clears[0]) and guards(flag_clears[0])[0][0] is guards(st_assigns[0])[0][0]
    chk.ob("O6.3", "has-value flag cleared on a rise", bool(ok), flag_clears[0] if flag_clears else mu, "")
    flag_sets = [n for n in walk_body(fb) if isinstance(n, ast.Assign) and any(is_self_attr(t, "has_samples_in_sample_type") for t in n.targets) and source.is_const(n.value, True)]
    chk.ob("O6.3", "has-value flag set by finish", bool(flag_sets) and not guards(flag_sets[0]), flag_sets[0] if flag_sets else fb, "")
    other_flag = [n for n in ast.walk(drv.tree) if isinstance(n, ast.Assign) and any(isinstance(t, ast.Attribute) and t.attr == "has_samples_in_sample_type" for t in n.targets)
                  and source.enclosing_func(n) not in (mu, fb) and source.enclosing_func(n).name != "__init__"]
    chk.ob("O6.3", "no other writer of the has-value flag", not other_flag, other_flag[0] if other_flag else TS, "")
    other_st = [n for n in ast.walk(drv.tree) if isinstance(n, ast.Assign) and any(isinstance(t, ast.Attribute) and t.attr == "sample_type" and isinstance(t.value, ast.Name) and t.value.id in (stats_var, "self") for t in n.targets)
                and source.enclosing_class(n) in (TS, TC) and source.enclosing_func(n) is not mu and source.enclosing_func(n).name != "__init__"]
    chk.ob("O6.3", "no other writer of the per-task sample type", not other_st, other_st[0] if other_st else TS, "")
    mcalls = [n for n in walk_body(ctt) if isinstance(n, ast.Call) and u(n.func) == f"{stats_var}.maybe_update_sample_type"]
    ok = len(mcalls) == 1 and source.parent(source.parent(mcalls[0])) is L and not guards(mcalls[0], stop=L) and u(mcalls[0].args[0]) == f"{svar}.sample_type"
    chk.ob("O6.3", "type updated from every sample", ok, mcalls[0] if mcalls else L, "")
    # emitted tuples
    emits = [n for n in walk_body(ctt) if isinstance(n, ast.Call) and last_attr(n.func) == "append" and n.args and isinstance(n.args[0], ast.Tuple) and len(n.args[0].elts) == 5]
    if len(emits) < 2:
        raise AnchorMissing("the two throughput emit sites (5-tuples) in calculate_task_throughput")
    for e in emits:
        t = e.args[0].elts
        chk.ob("O6.3", "emitted sample type is the per-task type", u(t[2]) == f"{stats_var}.sample_type", e, f"3rd element: {u(t[2])}")
    # final-sample rule after the loop
    fin_out = [c for c in fin_calls if L not in list(source.ancestors(c))]
    ok = False
    if fin_out:
        gs = guards(fin_out[0])
        ok = any(pol and "can_add_final_throughput_sample" in u(t) for t, pol in gs) and g.dominated_by_nodes(g.node_of(fin_out[0]), [Lh]) and \
            not g.path_exists(g.node_of(fin_out[0]), Lh)
    chk.ob("O6.3", "final-sample rule after the loop", ok, fin_out[0] if fin_out else ctt, "")
    if fin_out:
        from sa import pat
        extra = [u(f_) for f_ in pat.fact_nodes(fin_out[0]) if not ("can_add_final_throughput_sample" in u(f_) and isinstance(f_, ast.Call)) and not pat.is_(f_, "V_x is not None")]
        chk.ob("O6.3", "the final-sample rule depends on nothing but the per-task predicate (and a sample having been seen)", not extra, fin_out[0],
               "" if not extra else f"additional condition(s) {extra}: a task whose pending samples carry 0 ops, or whose count did not grow, gets no value of its sample type",
               key=f"{_D}:calculate_task_throughput:final-rule-guards")
    fa_ = sm.get("can_add_final_throughput_sample")
    r_ = [n for n in walk_body(fa_) if isinstance(n, ast.Return)] if fa_ is not None else []
    if len(r_) == 1:
        from sa.cfg import conjuncts
        from sa import pat
        cj = conjuncts(r_[0].value)
        ok = len(cj) == 2 and any(pat.is_(c, "self.interval > 0") for c in cj) and any(pat.is_(c, "not self.has_samples_in_sample_type") for c in cj)
        chk.ob("O6.3", "predicate == positive elapsed time and no value of the current sample type yet", ok, fa_, u(r_[0].value), key=f"{_D}:TaskStats.can_add_final_throughput_sample:exact")
    fa = sm.get("can_add_final_throughput_sample")
    rets = [n for n in walk_body(fa) if isinstance(n, ast.Return)]
    ok = len(rets) == 1 and any(u(v) == "not self.has_samples_in_sample_type" for v in getattr(rets[0].value, "values", []))
    chk.ob("O6.3", "final sample only when the current type has no value yet", ok, fa, short(rets[0], 70) if rets else "")

    # ---- O6.5 formula identity -------------------------------------------------------------------------------------------------------
    chk.rule("O6.5", "throughput == carried_total / interval; start == first.absolute_time - first.time_period, fixed at first sight of the task; emitted value is <stats>.throughput", 4,
             "any task: the reported number is not ops/elapsed")
    tp = sm.get("throughput")
    rets = [n for n in walk_body(tp)] if tp else []
    rets = [n for n in rets if isinstance(n, ast.Return)]
    ok = len(rets) == 1 and rat_equal(rets[0].value, parse_expr("self.total_count / self.interval"))
    chk.ob("O6.5", "throughput = total_count / interval", ok, tp if tp else TS, short(rets[0], 60) if rets else "")
    ctor = [n for n in walk_body(ctt) if isinstance(n, ast.Call) and last_attr(n.func) == "TaskStats"]
    ok = False
    if ctor:
        c = ctor[0]
        stv = source.arg_of(c, 2, "start_time")
        fs = inline(stv, defs) if stv is not None else ""
        gs = guards(c)
        first = [k for k, v in defs.items() if isinstance(v, ast.Subscript) and source.is_const(v.slice, 0)]
        ok = stv is not None and rat_equal(source.inline_node(stv, defs), parse_expr("current_samples[0].absolute_time - current_samples[0].time_period".replace("current_samples", source.params_of(ctt)[2]))) \
            and any(pol and isinstance(t, ast.Compare) and isinstance(t.ops[0], ast.NotIn) for t, pol in gs)
        sty = source.arg_of(c, 1, "sample_type")
    chk.ob("O6.5", "start fixed at first sight: first.absolute_time - first.time_period", ok, ctor[0] if ctor else ctt, short(ctor[0], 100) if ctor else "")
    st_w = [n for n in ast.walk(drv.tree) if isinstance(n, (ast.Assign, ast.AugAssign)) and any(isinstance(t, ast.Attribute) and t.attr == "start_time" for t in (n.targets if isinstance(n, ast.Assign) else [n.target]))
            and source.enclosing_class(n) in (TS, TC) and source.enclosing_func(n).name != "__init__"]
    chk.ob("O6.5", "start_time never rewritten", not st_w, st_w[0] if st_w else TS, "")
    for e in emits:
        t = e.args[0].elts
        chk.ob("O6.5", "emitted value is <stats>.throughput", u(t[3]) == f"{stats_var}.throughput", e, f"4th element: {u(t[3])}")
    # emit follows finish in the same branch
    for e in emits:
        en = g.node_of(e)
        ok = g.dominated_by_nodes(en, [g.node_of(c) for c in fin_calls]) and any(
            source.parent(source.enclosing_stmt(c)) is source.parent(source.enclosing_stmt(e)) for c in fin_calls)
        chk.ob("O6.5", "value emitted right after its bucket is finished", ok, e, "")

    # ---- O6.4 pass-through and unit -----------------------------------------------------------------------------------------------------
    chk.rule("O6.4", "runner-supplied throughput is passed through unchanged (dispatch on `is None`, never truthiness: 0 is a legitimate value); every emit site builds the unit as '<ops unit>/s'", 4,
             "a runner reporting throughput 0 (or any value): rally recomputes and reports something else")
    dis = [n for n in walk_body(calc) if isinstance(n, ast.If) and any(isinstance(x, ast.Attribute) and x.attr == "throughput" for x in ast.walk(n.test))]
    if not dis:
        raise AnchorMissing("dispatch on first_sample.throughput in calculate()")
    d = dis[0]
    t = d.test
    ok = isinstance(t, ast.Compare) and len(t.ops) == 1 and isinstance(t.ops[0], (ast.Is, ast.IsNot)) and source.is_const(t.comparators[0]) and t.comparators[0].value is None
    chk.ob("O6.4", "dispatch tests `throughput is None`", ok, d, f"`{u(t)}`" + ("" if ok else " — truthiness/other test treats a runner-supplied 0 as absent"))
    if ok:
        none_arm = d.body if isinstance(t.ops[0], ast.Is) else d.orelse
        some_arm = d.orelse if isinstance(t.ops[0], ast.Is) else d.body
        ok1 = any(isinstance(n, ast.Call) and last_attr(n.func) == "calculate_task_throughput" for s in none_arm for n in ast.walk(s))
        ok2 = any(isinstance(n, ast.Call) and last_attr(n.func) == "map_task_throughput" for s in some_arm for n in ast.walk(s))
        chk.ob("O6.4", "None -> calculate, value -> pass-through", ok1 and ok2, d, "")
    memits = [n for n in walk_body(mtt) if isinstance(n, ast.Call) and last_attr(n.func) == "append" and n.args and isinstance(n.args[0], ast.Tuple) and len(n.args[0].elts) == 5]
    mloops = [n for n in walk_body(mtt) if isinstance(n, ast.For)]
    ok = len(memits) == 1 and len(mloops) == 1 and not guards(memits[0], stop=mloops[0]) and not any(isinstance(x, (ast.Break, ast.Continue)) for x in ast.walk(mloops[0]))
    chk.ob("O6.4", "pass-through emits one value per sample", ok, mtt, "")
    for e in memits:
        v = mloops[0].target.id if mloops and isinstance(mloops[0].target, ast.Name) else "sample"
        t5 = e.args[0].elts
        chk.ob("O6.4", "pass-through value is the sample's throughput", u(t5[3]) == f"{v}.throughput", e, f"4th element: {u(t5[3])}")
        chk.ob("O6.4", "pass-through keeps the sample's type and times", u(t5[2]) == f"{v}.sample_type" and u(t5[0]) == f"{v}.absolute_time", e, "")
    for e in emits + memits:
        t5 = e.args[0].elts
        unit = t5[4]
        ok = isinstance(unit, ast.JoinedStr) and len(unit.values) == 2 and isinstance(unit.values[0], ast.FormattedValue) and u(unit.values[0].value).endswith(".total_ops_unit") \
            and isinstance(unit.values[1], ast.Constant) and unit.values[1].value == "/s"
        chk.ob("O6.4", "unit is '<ops unit>/s'", ok, e, f"5th element: {u(unit)}")

    # ---- obligations added after the defect hunt --------------------------------------------------------------------------------------------
    tp_fields = {t5_[3].attr for t5_ in (e.args[0].elts for e in memits) if isinstance(t5_[3], ast.Attribute)}
    if len(tp_fields) != 1:
        raise AnchorMissing("the sample field map_task_throughput passes through as the value (4th element of the emitted tuple)")
    sampler_handover_rule(chk, drv)
    passthrough_decision_rule(chk, drv, calc, ctt, mtt, tp_fields.pop())
    unit_source_rule(chk, drv, TS, TC, ctt, emits, L, stats_var)
    low_water_mark_rule(chk, drv, TS, TC)


from sa.selftest import V  # noqa: E402

VARIANTS = [
    V("F12: unprocessed not cleared once merged", "break", _D, "        # samples carried over from the previous invocation are already contained in current_samples\n        current.unprocessed = []\n", "", "O6.1"),
    V("count += inside else", "break", _D, "            count += sample.total_ops\n            current.update_interval(sample.absolute_time)\n\n            if current.can_calculate_throughput():",
      "            current.update_interval(sample.absolute_time)\n\n            if current.can_calculate_throughput():\n                count += sample.total_ops", "O6.1"),
    V("finish does not reset unprocessed", "break", _D, "        def finish_bucket(self, new_total):\n            self.unprocessed = []\n", "        def finish_bucket(self, new_total):\n", "O6.1"),
    V("drop the chain", "break", _D, "                samples = itertools.chain(v, self.task_stats[task].unprocessed)", "                samples = v", "O6.1"),
    V("seed m1: final rule writes total directly", "break", _D, "        if last_sample is not None and current.can_add_final_throughput_sample():\n            current.finish_bucket(count)",
      "        if last_sample is not None and current.can_add_final_throughput_sample():\n            current.total_count = count\n            current.has_samples_in_sample_type = True", "O6."),
    V("interval not monotone", "break", _D, "            self.interval = max(absolute_sample_time - self.start_time, self.interval)", "            self.interval = absolute_sample_time - self.start_time", "O6.2"),
    V("can_calculate without > 0", "break", _D, "            return self.interval > 0 and self.interval >= self.bucket", "            return self.interval >= self.bucket", "O6.2"),
    V("sample type may fall", "break", _D, "            if self.sample_type < current_sample_type:", "            if self.sample_type != current_sample_type:", "O6.3"),
    V("seed m2: emit sample.sample_type", "break", _D, "                        sample.relative_time,\n                        current.sample_type,", "                        sample.relative_time,\n                        sample.sample_type,", "O6.3"),
    V("flag not cleared on rise", "break", _D, "                self.sample_type = current_sample_type\n                self.has_samples_in_sample_type = False", "                self.sample_type = current_sample_type", "O6.3"),
    V("seed m3: truthiness dispatch", "break", _D, "            if first_sample.throughput is None:", "            if not first_sample.throughput:", "O6.4"),
    V("pass-through emits total_ops", "break", _D, "                    sample.sample_type,\n                    sample.throughput,", "                    sample.sample_type,\n                    sample.total_ops,", "O6.4"),
    V("unit without /s", "break", _D, '                        f"{sample.total_ops_unit}/s",', '                        f"{sample.total_ops_unit}",', "O6.4"),
    V("throughput = count / bucket", "break", _D, "            return self.total_count / self.interval", "            return self.total_count / self.bucket", "O6.5"),
    V("start without time_period", "break", _D, "                start_time=first_sample.absolute_time - first_sample.time_period,", "                start_time=first_sample.absolute_time,", "O6.5"),
    # F23 (repaired in f7c4bc2): the worker ships the remaining samples before it replaces / drops the sampler
    V("F23: next round replaces the sampler undrained (repair reverted)", "break", _D,
      "                # the previous tasks may have finished after the last periodic drain: ship their remaining samples before the sampler is replaced\n                self.send_samples()\n                self.sampler = Sampler(",
      "                self.sampler = Sampler(", "O6.6"),
    V("F23: drain of the next round only when no completion was requested", "break", _D,
      "                self.send_samples()\n                self.sampler = Sampler(",
      "                if self.cancel.is_set():\n                    self.send_samples()\n                self.sampler = Sampler(", "O6.6"),
    V("F23: join point drains before it waits for the load generator", "break", _D,
      "            if self.executor_future is not None:\n                self.executor_future.result()\n            self.send_samples()\n",
      "            self.send_samples()\n            if self.executor_future is not None:\n                self.executor_future.result()\n", "O6.6"),
    V("F23 respelled: drain moved above the log line", "keep", _D,
      "                self.logger.debug(\"Worker[%d] is executing tasks at index [%d].\", self.worker_id, self.current_task_index)\n                # the previous tasks may have finished after the last periodic drain: ship their remaining samples before the sampler is replaced\n                self.send_samples()\n",
      "                self.send_samples()\n                self.logger.debug(\"Worker[%d] is executing tasks at index [%d].\", self.worker_id, self.current_task_index)\n"),
    V("F23 respelled: result of the drain bound, new sampler through a local", "keep", _D,
      "                self.send_samples()\n                self.sampler = Sampler(start_timestamp=time.perf_counter(), buffer_size=self.sample_queue_size)\n",
      "                leftover = self.send_samples()\n                if leftover:\n                    self.logger.debug(\"Worker[%d] shipped [%d] late samples.\", self.worker_id, len(leftover))\n"
      "                fresh = Sampler(start_timestamp=time.perf_counter(), buffer_size=self.sample_queue_size)\n                self.sampler = fresh\n"),
    # preserving
    V("reorder finish assignments", "keep", _D, "            self.unprocessed = []\n            self.total_count = new_total", "            self.total_count = new_total\n            self.unprocessed = []"),
    V("is not None dispatch inverted", "keep", _D,
      "            if first_sample.throughput is None:\n                task_throughput = self.calculate_task_throughput(task, current_samples, bucket_interval_secs)\n            else:\n                task_throughput = self.map_task_throughput(current_samples)",
      "            if first_sample.throughput is not None:\n                task_throughput = self.map_task_throughput(current_samples)\n            else:\n                task_throughput = self.calculate_task_throughput(task, current_samples, bucket_interval_secs)"),
    V("max operands swapped", "keep", _D, "            self.interval = max(absolute_sample_time - self.start_time, self.interval)", "            self.interval = max(self.interval, absolute_sample_time - self.start_time)"),
]
