"""C03 — bulk indexing ingests every corpus document exactly once across clients (DESIGN.md section 4, C03).

How the module decides (hardening round 2): the clauses of the property are statements about what the bulk parameter source hands to the runner, so they are decided END TO END ON
VALUES - `_pipeline_verdicts` instantiates the analysed classes in a small local evaluator (`_M`, nothing of the repository is imported or run) and drives them through the driver's
contract on a corpus model; every evaluated configuration is one obligation instance of the rule whose clause it decides (`_SIM_ROWS`). The structural obligations of the first phase
are kept as RECOGNISERS: on the shape they know they discharge the obligation and, for a defect, name the construct; a shape they do not know (extracted helper, renamed attribute,
comprehension instead of loop, ...) is never a finding by itself - `ob()` in `run` then lets the value runs the clause is about decide (`_RULE_SIMS`): falsified only if the evaluated
pipeline emits something wrong, inconclusive only if it cannot be evaluated either.

Hardening round 3: (a) record types where a bare tuple / pair / hand-written constructor was - the evaluator instantiates `class X(NamedTuple)`, `collections.namedtuple(..)` and
`@dataclass` classes of the analysed module (fields, defaults, default factories, __post_init__; enumeration members are singleton objects), the recognisers read a record construction
in FIELD order (`_returned_elts`) and a field / index selection as the position it stands for (`_selected_element`); (b) O3.10, the one path rule of this module without a value run
behind it, is re-stated on facts established along CFG edges with file names and existence tests evaluated on values (see `_stale_table_rule`); it falsifies only when every statement
on the way that is handed the path is understood; (c) the evaluator knows dict union, contextlib.suppress / closing / nullcontext, typing.cast, copy, more of itertools.

Hardening round 4: O3.10's remover is a ROLE decided on values - whatever the loader calls in the io module (a function, a static / class method such as `io.FileOffsetTable.remove(p)`
after the pass-through wrapper was inlined, a method of the table object a factory returned) is RUN in the rule's file system (`os.remove` / `os.unlink` / `Path.unlink` act on a set
of existing paths): the files it deletes name the remover, and a call establishes 'no table of this file' iff it returns without the table in every world it returns in - whatever
options (`missing_ok=True`), parameter order or wrappers are involved. Methods of objects created by io code run in the io machine; a statement that cannot be run is 'not decided'
there (`_M.strict_effects`), never 'no effect'.

Hardening round 5 (benign/C14-b12): O3.10's "(re)creating statement" is a ROLE decided by data flow - a collaborator call (or the call of an own helper that contains one) that is handed
the document path as the place to write to, whether the path arrives as a plain local or inside a record / tuple that one own helper builds and another takes apart (`carried` in
`_stale_table_rule`: record constructions of the module in field order, field / index selection, unpacking, returns of own helpers). An invalidating helper that is handed something
computed from the path (`target.path`) is 'not understood' (inconclusive), never 'no removal'."""
from __future__ import annotations

import ast
import collections
import copy
import decimal
import fractions
import functools
import itertools
import json
import math
import operator

from sa import minieval, pat, source
from sa.cfg import cfg_of, guards, holds
from sa.source import AnchorMissing, arg_of, bind_args, dotted, inline_node, is_self_attr, last_attr, local_defs, params_of, short, u, walk_body
from sa.sym import comparison, parse_expr, rat_equal, ratfun

_P = "esrally/track/params.py"
_I = "esrally/utils/io.py"


def _same_block(a, b) -> bool:
    """two statements lie in the same statement list (same parent AND same arm of it)."""
    p = source.parent(a)
    if p is None or p is not source.parent(b):
        return False
    return any(any(x is a for x in blk) and any(x is b for x in blk) for blk in (getattr(p, f, None) for f in ("body", "orelse", "finalbody")) if isinstance(blk, list))


def _meth(mod, cls, name):
    m = mod.methods(cls).get(name)
    if m is None:
        raise AnchorMissing(f"{mod.relpath}: method '{cls.name}.{name}' not found")
    return m


def _arg(call, i):
    """i-th positional argument of a call as text ('' when absent)."""
    a = arg_of(call, i, None)
    return u(a) if a is not None else ""


def _target_name(call):
    """the plain local a call's value is assigned to (`x = call(..)` / `x: T = call(..)`), else None."""
    st = source.enclosing_stmt(call)
    if isinstance(st, ast.Assign) and st.value is call and len(st.targets) == 1 and isinstance(st.targets[0], ast.Name):
        return st.targets[0].id
    if isinstance(st, ast.AnnAssign) and st.value is call and isinstance(st.target, ast.Name):
        return st.target.id
    return None


def _unpack_names(call):
    """names at the tuple-unpack positions of `a, b, .. = call(..)`, else None."""
    st = source.enclosing_stmt(call)
    if isinstance(st, ast.Assign) and st.value is call and len(st.targets) == 1 and isinstance(st.targets[0], ast.Tuple) and all(isinstance(t, ast.Name) for t in st.targets[0].elts):
        return [t.id for t in st.targets[0].elts]
    return None


def _triple_call(f):
    """the call in f whose result is unpacked into three targets (offset, documents, lines of a slice), else None."""
    for c in source.calls_in(f):
        st = source.enclosing_stmt(c)
        if isinstance(st, ast.Assign) and st.value is c and len(st.targets) == 1 and isinstance(st.targets[0], ast.Tuple) and len(st.targets[0].elts) == 3:
            return c
    return None


def _returned_name(f, pos=None):
    """the local returned by the single return of f (pos: element of the returned tuple), else None."""
    r = [x for x in walk_body(f) if isinstance(x, ast.Return)]
    if len(r) != 1 or r[0].value is None:
        return None
    v = r[0].value
    if pos is not None:
        if not isinstance(v, ast.Tuple) or not -len(v.elts) <= pos < len(v.elts):
            return None
        v = v.elts[pos]
    return v.id if isinstance(v, ast.Name) else None


def _empty_list_local(f, name) -> bool:
    """name is bound exactly once in f, to an empty list literal (plain or annotated assignment)."""
    if name is None:
        return False
    b = [x for x in walk_body(f) if (isinstance(x, ast.Assign) and any(isinstance(t, ast.Name) and t.id == name for t in x.targets)) or (isinstance(x, ast.AnnAssign) and isinstance(x.target, ast.Name) and x.target.id == name)]
    return len(b) == 1 and isinstance(b[0].value, ast.List) and not b[0].value.elts


# ---- local value evaluation ---------------------------------------------------------------------------------------------------------------------
# sa/minieval.py interprets pure expressions only. The rules of this module that are decided on VALUES need more: statements, exceptions as outcomes, exact arithmetic and - for the
# end-to-end evaluation of the bulk pipeline - objects, loops, generators and calls between the analysed functions. A small machine for that subset of Python lives here. Like
# minieval it only ever interprets EXTRACTED syntax trees on representative values supplied by the rule; no function of the repository is called or imported. Whatever it does not
# interpret raises _Cannot: the rule then reports 'not recognised' (inconclusive), never a verdict.


class _Cannot(Exception):
    """the extracted code uses something this evaluator does not interpret: the rule reports 'inconclusive', never a verdict."""


class _CannotStmt(_Cannot):
    """... a statement kind (loop, with, ...)."""

    def __init__(self, node):
        super().__init__(f"statement kind {type(node).__name__}")
        self.node = node


class _Raised(Exception):
    """the evaluated code raises (name of the exception class)."""

    def __init__(self, name, msg=""):
        super().__init__(f"{name}: {msg}" if msg else name)
        self.name = name


class _Diverges(_Raised):
    """the evaluated code runs far longer than any representative input warrants (a loop that makes no progress)."""

    def __init__(self, steps):
        super().__init__("NoProgress", f"still running after {steps} evaluation steps")


class _Opaque:
    """a value the evaluator could not compute; using it is _Cannot, merely storing it is fine."""

    def __repr__(self):
        return "<opaque>"


_OPAQUE = _Opaque()
_MISSING = object()


class _Obj:
    """an object of the evaluated world: an instance of an analysed class (attributes are set by the interpreted code) or a stand-in the rule supplies for a collaborator
    (native: method name -> python callable)."""

    def __init__(self, cls=None, attrs=None, native=None, label="", partial=True):
        # partial: the rule built the object and set only the attributes it cares about - a missing one is 'cannot evaluate', not an AttributeError of the evaluated program
        self.cls, self.attrs, self.native, self.label, self.partial = cls, dict(attrs or {}), dict(native or {}), label, partial

    def __repr__(self):
        return f"<{self.label or (self.cls.name if self.cls is not None else 'object')}>"


class _FnDef:
    """a function of the analysed module as a value (cls: the class it was found in, env: the enclosing function's variables for a nested def / lambda)."""

    def __init__(self, node, cls=None, env=None):
        self.node, self.cls, self.env = node, cls, env


class _Bound:
    def __init__(self, obj, fn):
        self.obj, self.fn = obj, fn


class _Cls:
    def __init__(self, node):
        self.node = node


class _Ref:
    """an imported module / object that is not interpreted (attribute access extends the path; the rule may bind paths to stand-ins)."""

    def __init__(self, path):
        self.path = path

    def __repr__(self):
        return f"<{self.path}>"


class _Gen:
    """a generator of the evaluated world. Generator functions are evaluated EAGERLY (the values are collected, then handed out one by one): equivalent as long as the consumer
    does not feed back into the generator, which holds for the pipelines evaluated here."""

    def __init__(self, values):
        self.it = iter(values)


class _Exc:
    """the value bound by `except E as x`."""

    def __init__(self, name):
        self.name = name


_NUM = (int, float, fractions.Fraction, decimal.Decimal)
_LIB = {"math.ceil": math.ceil, "math.floor": math.floor, "math.trunc": math.trunc, "fractions.Fraction": fractions.Fraction, "decimal.Decimal": decimal.Decimal,
        "operator.lt": operator.lt, "operator.le": operator.le, "operator.gt": operator.gt, "operator.ge": operator.ge, "operator.eq": operator.eq, "operator.ne": operator.ne,
        "operator.add": operator.add, "operator.sub": operator.sub, "operator.mul": operator.mul, "operator.floordiv": operator.floordiv, "operator.mod": operator.mod,
        "collections.deque": collections.deque, "itertools.chain": itertools.chain, "itertools.islice": itertools.islice, "itertools.cycle": itertools.cycle,
        "itertools.zip_longest": itertools.zip_longest, "itertools.chain.from_iterable": itertools.chain.from_iterable, "functools.reduce": functools.reduce,
        "itertools.repeat": itertools.repeat, "itertools.accumulate": itertools.accumulate, "itertools.product": itertools.product, "itertools.count": itertools.count,
        "collections.OrderedDict": collections.OrderedDict, "collections.Counter": collections.Counter, "json.dumps": json.dumps, "json.loads": json.loads, "math.isclose": math.isclose,
        "math.inf": math.inf, "math.fsum": math.fsum, "math.gcd": math.gcd, "operator.itemgetter": operator.itemgetter, "operator.attrgetter": operator.attrgetter,
        "collections.namedtuple": collections.namedtuple}
_BUILTINS = {"int": int, "float": float, "str": str, "repr": repr, "round": round, "abs": abs, "min": min, "max": max, "bool": bool, "len": len, "sum": sum, "divmod": divmod, "range": range,
             "sorted": sorted, "list": list, "tuple": tuple, "dict": dict, "set": set, "frozenset": frozenset, "enumerate": enumerate, "zip": zip, "reversed": reversed, "any": any,
             "all": all, "bytes": bytes, "pow": pow, "True": True, "False": False, "None": None}
_ITERATING = {list, tuple, set, frozenset, sorted, sum, enumerate, zip, any, all, min, max, reversed, dict, collections.deque, itertools.chain, itertools.islice, itertools.cycle,
              itertools.zip_longest, itertools.chain.from_iterable, functools.reduce, itertools.accumulate, itertools.product}
_METHODS = {"append", "extend", "pop", "popleft", "appendleft", "extendleft", "insert", "remove", "clear", "copy", "get", "items", "keys", "values", "update", "setdefault", "join", "encode",
            "decode", "strip", "lstrip", "rstrip", "split", "rsplit", "splitlines", "startswith", "endswith", "format", "lower", "upper", "replace", "rotate", "index", "count", "sort", "reverse",
            "add", "discard", "union", "partition", "isdigit", "zfill", "bit_length", "is_integer", "popitem", "find", "title", "capitalize"}
_ARITH = {ast.Add: operator.add, ast.Sub: operator.sub, ast.Mult: operator.mul, ast.Div: operator.truediv, ast.FloorDiv: operator.floordiv, ast.Mod: operator.mod, ast.Pow: operator.pow}
_CMPOP = {ast.Eq: operator.eq, ast.NotEq: operator.ne, ast.Lt: operator.lt, ast.LtE: operator.le, ast.Gt: operator.gt, ast.GtE: operator.ge, ast.Is: operator.is_, ast.IsNot: operator.is_not,
          ast.In: lambda a, b: a in b, ast.NotIn: lambda a, b: a not in b}
_BASES = {"ZeroDivisionError": ("ArithmeticError",), "OverflowError": ("ArithmeticError",), "InvalidOperation": ("ArithmeticError",), "KeyError": ("LookupError",), "IndexError": ("LookupError",),
          "FileNotFoundError": ("OSError", "IOError"), "IOError": ("OSError",), "NoProgress": (), "UnboundLocalError": ("NameError",)}
_SEQ = (list, tuple, str, bytes)
_CONTAINERS = (list, tuple, dict, set, frozenset, str, bytes, range, collections.deque)
_MUTABLE = (list, dict, set, collections.deque, _Obj, _Gen)


def _plain(v, depth=0) -> bool:
    """a value of the host language whose operators mean what they mean in the evaluated program."""
    if v is None or isinstance(v, (bool, str, bytes) + _NUM):
        return True
    if depth < 4 and isinstance(v, (list, tuple, set, frozenset, collections.deque)):
        return all(_plain(x, depth + 1) for x in v)
    if depth < 4 and isinstance(v, dict):
        return all(_plain(k, depth + 1) and _plain(x, depth + 1) for k, x in v.items())
    return isinstance(v, range)


def _guarded(fn, *args, **kwargs):
    try:
        return fn(*args, **kwargs)
    except (_Cannot, _Raised):
        raise
    except StopIteration:
        raise _Raised("StopIteration")
    except (ArithmeticError, ValueError, LookupError) as x:  # ZeroDivisionError, OverflowError, decimal.InvalidOperation, int("x"), [][0], {}["k"]
        raise _Raised(type(x).__name__, str(x))
    except (TypeError, AttributeError) as x:  # unsupported operand types: a verdict only when every operand is a value of the host language
        if all(_plain(a) for a in list(args) + list(kwargs.values())):
            raise _Raised(type(x).__name__, str(x))
        raise _Cannot(f"{getattr(fn, '__name__', fn)}: {x}")


def _dotted(e):
    """source.dotted, remembered on the node (the evaluator asks for it on every evaluation of an attribute)."""
    try:
        return e._c03_dotted
    except AttributeError:
        e._c03_dotted = d = dotted(e)
        return d


def _is_logging(e) -> bool:
    """`<something called log / logger / logging>.<level>(..)`: reads its arguments, changes nothing the evaluated program can see."""
    if not (isinstance(e, ast.Call) and isinstance(e.func, ast.Attribute) and e.func.attr in ("debug", "info", "warning", "warn", "error", "exception", "critical", "log")):
        return False
    return any((isinstance(x, ast.Name) and "log" in x.id.lower()) or (isinstance(x, ast.Attribute) and "log" in x.attr.lower()) for x in ast.walk(e.func.value))


def _machine_fn(fn):
    """a host function that is part of the evaluator (called with the values of the evaluated world as they are)."""
    fn._machine = fn._opaque_ok = True
    return fn


def _local_names(f) -> set:
    """names a function binds somewhere in its body (its locals, whether or not they are bound yet when a statement runs)."""
    r = getattr(f, "_c03_locals", None)
    if r is None:
        r = f._c03_locals = {n.id for n in walk_body(f) if isinstance(n, ast.Name) and isinstance(n.ctx, ast.Store)} - \
            {nm for n in walk_body(f) if isinstance(n, (ast.Global, ast.Nonlocal)) for nm in n.names}
    return r


def _has_yield(f) -> bool:
    r = getattr(f, "_c03_yields", None)
    if r is None:
        r = f._c03_yields = any(isinstance(n, (ast.Yield, ast.YieldFrom)) for n in walk_body(f))
    return r


# ---- record classes (typing.NamedTuple, collections.namedtuple(..), @dataclass): small value carriers a refactoring puts where a bare tuple / dict / hand-written __init__ was ----
def _last(e) -> str:
    """last component of the dotted name of an expression ('' if it has none)."""
    return (dotted(e) or "").rsplit(".", 1)[-1]


def _is_namedtuple_class(cls) -> bool:
    return isinstance(cls, ast.ClassDef) and any(_last(b) == "NamedTuple" for b in cls.bases)


def _dataclass_deco(cls):
    """the @dataclass / @dataclasses.dataclass(..) decorator of a class, else None."""
    for d in cls.decorator_list if isinstance(cls, ast.ClassDef) else []:
        if _last(d.func if isinstance(d, ast.Call) else d) == "dataclass":
            return d
    return None


def _class_fields(cls) -> list:
    """[(name, default expression | None)] of the annotated class-level names of ONE class body, in order. The parse-time normalisation N7 turns `x: T = v` into `x = v`: whether a
    plain class-level assignment was annotated is read from its source line."""
    out = []
    for st in cls.body:
        if isinstance(st, ast.AnnAssign) and isinstance(st.target, ast.Name):
            if "ClassVar" not in u(st.annotation):
                out.append((st.target.id, st.value))
        elif isinstance(st, ast.Assign) and len(st.targets) == 1 and isinstance(st.targets[0], ast.Name):
            mod = getattr(st, "_module", None)
            lines = mod.text.splitlines() if mod is not None else []
            line = lines[st.lineno - 1].strip() if 0 < getattr(st, "lineno", 0) <= len(lines) else ""
            head = line[len(st.targets[0].id):].lstrip() if line.startswith(st.targets[0].id) else ""
            if head.startswith(":") and not head.startswith(":=") and "ClassVar" not in head.split("=", 1)[0]:
                out.append((st.targets[0].id, st.value))
    return out


def _namedtuple_call_fields(e):
    """field names of `namedtuple("N", ["a", "b"])` / `namedtuple("N", "a b")` / `NamedTuple("N", [("a", int), ..])`, else None."""
    if not (isinstance(e, ast.Call) and _last(e.func) in ("namedtuple", "NamedTuple") and len(e.args) >= 2):
        return None
    try:
        spec = ast.literal_eval(e.args[1])
    except (ValueError, SyntaxError):
        spec = None
        if isinstance(e.args[1], (ast.List, ast.Tuple)) and all(isinstance(x, ast.Tuple) and x.elts and isinstance(x.elts[0], ast.Constant) for x in e.args[1].elts):
            spec = [x.elts[0].value for x in e.args[1].elts]  # [("a", int), ..]: the types are names, not literals
    if isinstance(spec, str):
        spec = spec.replace(",", " ").split()
    if isinstance(spec, (list, tuple)) and spec and all(isinstance(x, tuple) and x and isinstance(x[0], str) for x in spec):
        spec = [x[0] for x in spec]
    return list(spec) if isinstance(spec, (list, tuple)) and spec and all(isinstance(x, str) for x in spec) else None


def _record_fields(mod, callee, tuples_only=True):
    """field names, in order, of the record type a callee expression names in the module (a class deriving from NamedTuple, a name bound to namedtuple(..); with tuples_only=False
    also a @dataclass), else None."""
    nm = dotted(callee)
    if nm is None or mod is None:
        return None
    d = mod.index().get(nm)
    if isinstance(d, ast.ClassDef):
        if _is_namedtuple_class(d) or (not tuples_only and _dataclass_deco(d) is not None and not any(isinstance(x, source.FUNC_TYPES) and x.name == "__init__" for x in d.body)
                                       and all(_last(b) in ("object", "") for b in d.bases)):
            return [f for f, _ in _class_fields(d)] or None
        return None
    return _namedtuple_call_fields(mod.module_constant(nm))


def _record_call_elts(mod, v):
    """the arguments of a call that constructs a tuple-like record of the module (positional and keyword arguments bound to the fields), in FIELD order: what a bare tuple display
    would list. None when v is not such a call or does not supply every field."""
    if not isinstance(v, ast.Call) or any(isinstance(a, ast.Starred) for a in v.args) or any(k.arg is None for k in v.keywords):
        return None
    fields = _record_fields(mod, v.func)
    if fields is None or len(v.args) > len(fields):
        return None
    got = dict(zip(fields, v.args))
    for k in v.keywords:
        if k.arg not in fields or k.arg in got:
            return None
        got[k.arg] = k.value
    return [got[f] for f in fields] if len(got) == len(fields) else None


def _returned_elts(mod, f):
    """the elements of the tuple a function returns with its single return statement - a tuple display or the construction of a tuple-like record - else None."""
    r = [x for x in walk_body(f) if isinstance(x, ast.Return)]
    if len(r) != 1 or r[0].value is None:
        return None
    return list(r[0].value.elts) if isinstance(r[0].value, ast.Tuple) else _record_call_elts(mod, r[0].value)


def _returned_fields(mod, f):
    """field names of the record a function returns with its single return statement (None for a bare tuple)."""
    r = [x for x in walk_body(f) if isinstance(x, ast.Return)]
    return _record_fields(mod, r[0].value.func) if len(r) == 1 and isinstance(r[0].value, ast.Call) else None


def _selected_element(mod, callee, call):
    """which element of the tuple that `callee` returns does the consumer of this call keep, and under which local name: (position, name) for `x = call(..)[1]` / `x = call(..).<field>`
    (position normalised to 0..len-1 where the length is known), else None."""
    p = source.parent(call)
    pos = None
    if isinstance(p, ast.Subscript) and p.value is call:
        try:
            pos = ast.literal_eval(p.slice)  # (-1 is a unary minus applied to 1)
        except (ValueError, SyntaxError):
            return None
        if not isinstance(pos, int) or isinstance(pos, bool):
            return None
        n_ = len(_returned_elts(mod, callee) or [])
        if pos < 0:
            if not n_:
                return None
            pos += n_
    elif isinstance(p, ast.Attribute) and p.value is call:
        fields = _returned_fields(mod, callee)
        if fields is None or p.attr not in fields:
            return None
        pos = fields.index(p.attr)
    if pos is None:
        return None
    st = source.parent(p)
    if isinstance(st, ast.Assign) and st.value is p and len(st.targets) == 1 and isinstance(st.targets[0], ast.Name):
        return pos, st.targets[0].id
    if isinstance(st, ast.AnnAssign) and st.value is p and isinstance(st.target, ast.Name):
        return pos, st.target.id
    return None


class _M:
    """the evaluator. mod: the analysed module (its functions, classes and literal constants are visible by name); imports: alias -> dotted path; hooks: dotted callee text ->
    function(call node, env) for calls a rule interprets itself; ext: dotted path of an imported object -> stand-in value; env keys may be dotted texts ('self.total_bulks')
    when the rule fixes single attributes instead of supplying an object."""

    def __init__(self, mod=None, imports=None, hooks=None, ext=None, budget=400000):
        self.mod, self.imports, self.hooks, self.ext = mod, (imports if imports is not None else (mod.imports if mod is not None else {})), hooks or {}, ext or {}
        self.steps, self.budget, self.depth = 0, budget, 0
        self.strict_effects = False  # set by a rule whose question is what the evaluated code does to something OUTSIDE the evaluated world (files): see exec
        self._mro: dict = {}
        self._glob: dict = {}
        self._members: dict = {}
        self._handling: list = []
        self._enum_members: dict = {}
        self._records: dict = {}  # id(class node of a NamedTuple class) -> the host namedtuple type that stands for it
        self._record_nodes: dict = {}  # ... and back
        self.special = {"next": self.b_next, "iter": self.b_iter, "filter": self.b_filter, "map": self.b_map, "isinstance": self.b_isinstance, "hasattr": self.b_hasattr,
                        "getattr": self.b_getattr, "len": self.b_len}
        self.ext = dict(self.ext)
        self.ext.setdefault("functools.partial", self.b_partial)
        self.ext.setdefault("contextlib.closing", self.b_closing)
        self.ext.setdefault("contextlib.nullcontext", self.b_nullcontext)
        self.ext.setdefault("typing.cast", self.b_cast)
        self.ext.setdefault("copy.copy", self.b_copy)
        self.ext.setdefault("copy.deepcopy", self.b_deepcopy)

    # -- names and attributes -----------------------------------------------------------------------------------------------------------------------------------------
    def tick(self):
        self.steps += 1
        if self.steps > self.budget:
            raise _Diverges(self.steps)

    def ref(self, path):
        if path in self.ext:
            return self.ext[path]
        if path in _LIB:
            return _LIB[path]
        return _Ref(path)

    def glob(self, name):
        if name not in self._glob:
            v = self._glob_lookup(name)
            if isinstance(v, _MUTABLE):
                return v  # (a module-level list / dict literal: a fresh value per look-up is the safe reading)
            self._glob[name] = v
        return self._glob[name]

    def _glob_lookup(self, name):
        if self.mod is not None:
            n = self.mod.index().get(name)
            if isinstance(n, source.FUNC_TYPES):
                return _FnDef(n)
            if isinstance(n, ast.ClassDef):
                return _Cls(n)
            c = self.mod.module_constant(name)
            if c is not None:
                return self.val(c, {})
        if name in self.imports:
            return self.ref(self.imports[name])
        if name in self.special:
            return self.special[name]
        if name in _BUILTINS:
            return _BUILTINS[name]
        return _MISSING

    def name(self, name, env):
        if name in env:
            if env[name] is _OPAQUE:
                raise _Cannot(f"`{name}` has no representative value")
            return env[name]
        g = self.glob(name)
        if g is _MISSING:
            fn = env.get("__fn__")
            if fn is not None and name in _local_names(fn):
                raise _Raised("UnboundLocalError", f"local variable '{name}' referenced before assignment")  # a local of the evaluated function that no statement has bound yet
            raise _Cannot(f"`{name}` is not bound")
        return g

    def mro(self, cls):
        if id(cls) not in self._mro:
            out = [cls]
            for b in cls.bases:
                n = self.mod.index().get(dotted(b) or "") if self.mod is not None else None
                if isinstance(n, ast.ClassDef):
                    out += [c for c in self.mro(n) if not any(c is x for x in out)]
            self._mro[id(cls)] = out
        return self._mro[id(cls)]

    def closed(self, cls) -> bool:
        """every base class of cls is defined in the module (or contributes no attributes of its own)."""
        return all(isinstance(self.mod.index().get(dotted(b) or ""), ast.ClassDef) or (dotted(b) or "").rsplit(".", 1)[-1] in ("object", "ABC") for c in self.mro(cls) for b in c.bases) and \
            not any(c.keywords for c in self.mro(cls))

    def lookup(self, cls, name, after=None):
        """(definition, owner class) of a class member through the base classes defined in the module (after: continue behind that class - super())."""
        ck = (id(cls), name, id(after))
        if ck in self._members:
            return self._members[ck]
        chain = self.mro(cls)
        if after is not None:
            i = [k for k, c in enumerate(chain) if c is after]
            chain = chain[i[0] + 1:] if i else []
        found = (None, None)
        for c in chain:
            for st in c.body:
                if isinstance(st, source.FUNC_TYPES) and st.name == name and not any(isinstance(d, ast.Attribute) and d.attr in ("setter", "deleter") for d in st.decorator_list):
                    found = (st, c)
                elif isinstance(st, ast.Assign) and any(isinstance(t, ast.Name) and t.id == name for t in st.targets):
                    found = (st.value, c)
                if found[0] is not None:
                    break
            if found[0] is not None:
                break
        self._members[ck] = found
        return found

    def setter(self, cls, name):
        for c in self.mro(cls):
            for st in c.body:
                if isinstance(st, source.FUNC_TYPES) and st.name == name and any(isinstance(d, ast.Attribute) and d.attr == "setter" for d in st.decorator_list):
                    return st, c
        return None, None

    # -- record classes --------------------------------------------------------------------------------------------------------------------------------------------------
    def fields_of(self, cls):
        """[(field, default expression | None)] of a record class: the annotated class-level names, those of base classes first (a redefinition keeps its first position)."""
        out: dict = {}
        for c in reversed(self.mro(cls)):
            for nm, dflt in _class_fields(c):
                out[nm] = dflt
        return list(out.items())

    def record_type(self, cls):
        """the host's named tuple type that stands for `class X(NamedTuple)` of the analysed module (same fields, same defaults)."""
        t = self._records.get(id(cls))
        if t is None:
            fs = _class_fields(cls)
            if not fs:
                raise _Cannot(f"named tuple class {cls.name} without fields")
            t = _guarded(collections.namedtuple, cls.name, [f for f, _ in fs], defaults=[self.val(v, {}) for _, v in fs if v is not None])
            self._records[id(cls)] = t
            self._record_nodes[t] = cls
        return t

    def dataclass_init(self, obj, cls, dc, args, kwargs):
        """the constructor @dataclass writes for dc (the first dataclass in the MRO of cls): fields in order, positional or by keyword, defaults / default factories, then
        __post_init__."""
        deco = _dataclass_deco(dc)
        if isinstance(deco, ast.Call) and any(k.arg in ("init", "kw_only", "slots") for k in deco.keywords):
            raise _Cannot(f"@dataclass({', '.join(k.arg or '**' for k in deco.keywords)}) on {dc.name}")
        takes = []
        for nm, dflt in self.fields_of(dc):
            spec = {k.arg: k.value for k in dflt.keywords} if isinstance(dflt, ast.Call) and _last(dflt.func) == "field" else None
            if spec is not None and (not set(spec) <= {"default", "default_factory", "init", "repr", "compare", "hash", "metadata"} or "InitVar" in u(dflt)):
                raise _Cannot(f"field `{nm}` of {dc.name}: {u(dflt)[:50]}")
            in_init = spec is None or "init" not in spec or self.truth(self.val(spec["init"], {}))
            takes.append((nm, dflt, spec, in_init))
        own = [t_ for t_ in takes if t_[3]]
        if len(args) > len(own):
            raise _Raised("TypeError", f"{dc.name}() takes {len(own)} positional arguments but {len(args)} were given")
        for i, (nm, dflt, spec, in_init) in enumerate(own):
            if i < len(args) and nm in kwargs:
                raise _Raised("TypeError", f"{dc.name}() got multiple values for argument '{nm}'")
        pos = dict(zip([t_[0] for t_ in own], args))
        for nm, dflt, spec, in_init in takes:
            if in_init and nm in pos:
                v = pos[nm]
            elif in_init and nm in kwargs:
                v = kwargs.pop(nm)
            elif spec is not None and "default_factory" in spec:
                v = self.apply(self.val(spec["default_factory"], {}), [], {})
            elif spec is not None and "default" in spec:
                v = self.val(spec["default"], {})
            elif spec is None and dflt is not None:
                v = self.val(dflt, {})
            elif in_init:
                raise _Raised("TypeError", f"{dc.name}() missing required argument '{nm}'")
            else:
                continue
            obj.attrs[nm] = v
        if kwargs:
            raise _Raised("TypeError", f"{dc.name}() got an unexpected keyword argument '{next(iter(kwargs))}'")
        post, owner = self.lookup(cls, "__post_init__")
        if isinstance(post, source.FUNC_TYPES):
            self.call_def(post, [obj], {}, owner)

    def compares_by_value(self, cls) -> bool:
        """== on instances of cls is not identity: the class (or a base) defines __eq__ or is a @dataclass that writes one."""
        if self.lookup(cls, "__eq__")[0] is not None:
            return True
        for c in self.mro(cls):
            d = _dataclass_deco(c)
            if d is not None and not (isinstance(d, ast.Call) and any(k.arg == "eq" and source.is_const(k.value, False) for k in d.keywords)):
                return True
        return False

    @staticmethod
    def _decorated(f, what):
        return any((dotted(d) or "").rsplit(".", 1)[-1] == what for d in f.decorator_list)

    def getattr(self, base, name):
        if isinstance(base, _Obj):
            if name in base.attrs:
                if base.cls is not None:
                    d, owner = self.lookup(base.cls, name)
                    if isinstance(d, source.FUNC_TYPES) and self._decorated(d, "property"):
                        return self.call_def(d, [base], {}, owner)  # a property of the class takes precedence over an entry of the same name in the instance
                if base.attrs[name] is _OPAQUE:
                    raise _Cannot(f"attribute `{name}` of {base!r} has no representative value")
                return base.attrs[name]
            if name in base.native:
                return base.native[name]
            if base.cls is not None:
                d, owner = self.lookup(base.cls, name)
                if isinstance(d, source.FUNC_TYPES):
                    if self._decorated(d, "property") or self._decorated(d, "cached_property"):
                        return self.call_def(d, [base], {}, owner)
                    if self._decorated(d, "staticmethod"):
                        return _FnDef(d, owner)
                    if self._decorated(d, "classmethod"):
                        return _Bound(_Cls(base.cls), _FnDef(d, owner))
                    return _Bound(base, _FnDef(d, owner))
                if d is not None:
                    return self.val(d, {})
                if not base.partial and self.closed(base.cls) and not (name.startswith("__") and name.endswith("__")):
                    raise _Raised("AttributeError", f"'{base.cls.name}' object has no attribute '{name}'")  # every class it inherits from is at hand: nobody defines it
            raise _Cannot(f"attribute `{name}` of {base!r}")
        if isinstance(base, _Cls):
            d, owner = self.lookup(base.node, name)
            if isinstance(d, source.FUNC_TYPES):
                return _Bound(base, _FnDef(d, owner)) if self._decorated(d, "classmethod") else _FnDef(d, owner)
            if d is not None and owner is base.node and any(_last(b) in ("Enum", "Flag") for b in base.node.bases) and not name.startswith("_"):
                # a member of an enumeration: ONE object per member - compared by identity, always true, hashable, whatever value it was given (a literal, auto())
                ck = (id(base.node), name)
                if ck not in self._enum_members:
                    try:
                        v = self.val(d, {})
                    except _Cannot:
                        v = _OPAQUE
                    self._enum_members[ck] = _Obj(None, {"name": name, "value": v}, None, f"{base.node.name}.{name}")
                    self._enum_members[ck].frozen = True  # (nothing a call could do to it)
                return self._enum_members[ck]
            if _is_namedtuple_class(base.node) and name in ("_fields", "_make", "_field_defaults"):
                return getattr(self.record_type(base.node), name)
            if d is not None:
                return self.val(d, {})
            raise _Cannot(f"attribute `{name}` of class {base.node.name}")
        if isinstance(base, _Ref):
            return self.ref(f"{base.path}.{name}")
        if isinstance(base, tuple) and isinstance(getattr(base, "_fields", None), tuple):
            # an instance of a named tuple: its fields, the tuple's own helpers, then whatever the analysed class defines next to the fields
            if name in base._fields or name in ("_fields", "_asdict", "_replace", "index", "count"):
                return getattr(base, name)
            node = self._record_nodes.get(type(base))
            d, owner = self.lookup(node, name) if node is not None else (None, None)
            if isinstance(d, source.FUNC_TYPES):
                if self._decorated(d, "property") or self._decorated(d, "cached_property"):
                    return self.call_def(d, [base], {}, owner)
                if self._decorated(d, "staticmethod"):
                    return _FnDef(d, owner)
                return _Bound(_Cls(node), _FnDef(d, owner)) if self._decorated(d, "classmethod") else _Bound(base, _FnDef(d, owner))
            if d is not None:
                return self.val(d, {})
            if not name.startswith("__") and not hasattr(base, name) and (node is None or len(node.bases) == 1):
                raise _Raised("AttributeError", f"'{type(base).__name__}' object has no attribute '{name}'")  # neither a field nor defined by the class: the evaluated program fails here
            raise _Cannot(f"attribute `{name}` of a {type(base).__name__}")
        if isinstance(base, _CONTAINERS + _NUM) and name in _METHODS and hasattr(base, name):
            return getattr(base, name)
        raise _Cannot(f"attribute `{name}` of a {type(base).__name__}")

    def peek(self, e, env):
        """value of a plain name / attribute chain if it is at hand (no evaluation, no effects), else None."""
        if isinstance(e, ast.Starred):
            e = e.value
        if isinstance(e, ast.Name):
            return env.get(e.id)
        if isinstance(e, ast.Attribute):
            k = dotted(e)
            if k is not None and k in env:
                return env[k]
            b = self.peek(e.value, env)
            return b.attrs.get(e.attr) if isinstance(b, _Obj) else None
        return None

    def touches_mutable(self, e, env) -> bool:
        """an expression that could not be evaluated hands a mutable object of the evaluated world to some call: skipping it could lose an effect."""
        for n in ast.walk(e):
            if isinstance(n, ast.Call):
                for c in list(n.args) + [k.value for k in n.keywords] + ([n.func.value] if isinstance(n.func, ast.Attribute) else []):
                    v = self.peek(c, env)
                    if isinstance(v, _MUTABLE) and not getattr(v, "frozen", False):
                        return True
        return False

    # -- values -------------------------------------------------------------------------------------------------------------------------------------------------------
    def truth(self, v) -> bool:
        if v is _OPAQUE:
            raise _Cannot("truth value of an unknown value")
        if isinstance(v, _Obj) and v.cls is not None:
            for nm in ("__bool__", "__len__"):
                d, owner = self.lookup(v.cls, nm)
                if isinstance(d, source.FUNC_TYPES):
                    return bool(self.call_def(d, [v], {}, owner))
            return True
        if isinstance(v, _Obj):
            for nm in ("__bool__", "__len__"):
                if nm in v.native:
                    return bool(v.native[nm]())
            return True
        return bool(v)

    def iterate(self, v):
        if isinstance(v, _Gen):
            return v.it
        if isinstance(v, _Obj):
            it = v
            try:
                it = self.apply(self.getattr(v, "__iter__"), [], {})
            except _Cannot:
                pass
            if not isinstance(it, _Obj):
                return self.iterate(it)
            nx = self.getattr(it, "__next__")

            def gen():
                while True:
                    try:
                        x = self.apply(nx, [], {})
                    except _Raised as r:
                        if r.name == "StopIteration":
                            return
                        raise
                    yield x

            return gen()
        if isinstance(v, _CONTAINERS) or (hasattr(v, "__next__") and not isinstance(v, (_Opaque, _Ref, _FnDef, _Bound, _Cls))):
            return iter(v)
        if v is None or isinstance(v, (bool, int, float)):
            raise _Raised("TypeError", f"'{type(v).__name__}' object is not iterable")  # a definite value that is not iterable: the evaluated program fails here
        raise _Cannot(f"iteration over a {type(v).__name__}")

    def b_next(self, it, *default):
        try:
            if isinstance(it, _Gen):
                return _guarded(next, it.it)
            if isinstance(it, _Obj):
                return self.apply(self.getattr(it, "__next__"), [], {})
            if hasattr(it, "__next__"):
                return _guarded(next, it)
        except _Raised as r:
            if r.name == "StopIteration" and default:
                return default[0]
            raise
        raise _Raised("TypeError", f"'{type(it).__name__}' object is not an iterator") if _plain(it) else _Cannot("next() of an unknown value")

    def b_iter(self, v):
        if isinstance(v, _Obj):
            return self.apply(self.getattr(v, "__iter__"), [], {})
        return v if isinstance(v, _Gen) else self.iterate(v)

    def b_filter(self, f, it):
        return _Gen([x for x in self.iterate(it) if self.truth(x if f is None else self.apply(f, [x], {}))])

    def b_map(self, f, *its):
        return _Gen([self.apply(f, list(xs), {}) for xs in zip(*[self.iterate(i) for i in its])])

    def b_isinstance(self, v, t):
        ts = t if isinstance(t, tuple) and not hasattr(t, "_fields") else (t,)
        ts = tuple(self.record_type(x.node) if isinstance(x, _Cls) and _is_namedtuple_class(x.node) else x for x in ts)
        if isinstance(v, _Obj):
            if v.cls is None:
                raise _Cannot("isinstance() of a stand-in")
            return any(isinstance(x, _Cls) and any(c is x.node for c in self.mro(v.cls)) for x in ts)
        if all(isinstance(x, type) for x in ts) and _plain(v):
            return isinstance(v, ts)
        if all(isinstance(x, (type, _Cls)) for x in ts) and _plain(v):
            return isinstance(v, tuple(x for x in ts if isinstance(x, type)))
        raise _Cannot("isinstance()")

    def b_hasattr(self, v, name):
        if isinstance(v, _Obj) and v.cls is not None:
            return name in v.attrs or name in v.native or self.lookup(v.cls, name)[0] is not None
        raise _Cannot("hasattr()")

    def b_getattr(self, v, name, *default):
        if isinstance(v, _Obj) and v.cls is not None and not self.b_hasattr(v, name):
            if default:
                return default[0]
            raise _Raised("AttributeError", name)
        return self.getattr(v, name)

    def b_partial(self, f, *a, **k):
        def call(*a2, **k2):
            return self.apply(f, list(a) + list(a2), {**k, **k2})

        call._machine = True
        return call

    def b_closing(self, v):
        return _Obj(None, None, {"__enter__": _machine_fn(lambda: v), "__exit__": _machine_fn(lambda *a: self.apply(self.getattr(v, "close"), [], {}) and False)}, "closing(..)")

    def b_nullcontext(self, v=None):
        return _Obj(None, None, {"__enter__": _machine_fn(lambda: v), "__exit__": _machine_fn(lambda *a: False)}, "nullcontext(..)")

    def b_cast(self, t, v):
        return v

    b_cast._opaque_ok = True  # (the type is not evaluated)

    def b_copy(self, v):
        if isinstance(v, (list, dict, set, collections.deque)):
            return v.copy()
        if _plain(v):
            return v
        raise _Cannot(f"copy of a {type(v).__name__}")

    def b_deepcopy(self, v):
        if not _plain(v):
            raise _Cannot(f"deep copy of a {type(v).__name__}")
        return copy.deepcopy(v)  # (a plain value of the host language: no syntax tree hangs off it)

    def suppressing(self, e):
        """`contextlib.suppress(E1, E2)` as a context manager of the evaluated world (the exception classes are names, not values: read off the call)."""
        names = {_last(a) for a in e.args}

        def leave(t=None, v=None, tb=None):
            return isinstance(t, _Exc) and bool(({t.name} | set(_BASES.get(t.name, ())) | {"Exception", "BaseException"}) & names)

        return _Obj(None, None, {"__enter__": _machine_fn(lambda: None), "__exit__": _machine_fn(leave)}, f"suppress({', '.join(sorted(names))})")

    def b_len(self, v):
        if isinstance(v, _Obj):
            return self.apply(self.getattr(v, "__len__"), [], {})
        if isinstance(v, _CONTAINERS):
            return len(v)
        raise _Raised("TypeError", f"object of type '{type(v).__name__}' has no len()") if _plain(v) else _Cannot(f"len() of a {type(v).__name__}")

    def val(self, e, env):
        self.tick()
        t = type(e)
        if t is ast.Constant:
            return e.value
        if t is ast.Name:
            return self.name(e.id, env)
        if t is ast.Attribute:
            k = _dotted(e)
            if k is not None and k in env:
                if env[k] is _OPAQUE:
                    raise _Cannot(f"`{k}` has no representative value")
                return env[k]
            if k is not None and k.count(".") >= 2:
                # a member of a library object reached through an imported module (`itertools.chain.from_iterable`): resolved as a whole path
                head, rest = k.split(".", 1)
                if head not in env and head in self.imports and (self.mod is None or head not in self.mod.index()):
                    full = f"{self.imports[head]}.{rest}"
                    if full in self.ext or full in _LIB:
                        return self.ref(full)
            return self.getattr(self.val(e.value, env), e.attr)
        if t is ast.BinOp:
            a, b = self.val(e.left, env), self.val(e.right, env)
            op = type(e.op)
            if op in _ARITH and isinstance(a, _NUM) and isinstance(b, _NUM):
                return _guarded(_ARITH[op], a, b)
            if op is ast.Add and any(isinstance(a, s) and isinstance(b, s) for s in _SEQ):
                return a + b
            if op is ast.Mult and ((isinstance(a, _SEQ) and isinstance(b, int)) or (isinstance(a, int) and isinstance(b, _SEQ))):
                if (len(a) * b if isinstance(b, int) else len(b) * a) > 10 ** 6:
                    raise _Cannot("sequence too long for evaluation")
                return a * b
            if op is ast.Mod and isinstance(a, (str, bytes)) and _plain(b):
                return _guarded(operator.mod, a, b)
            if op in (ast.BitOr, ast.BitAnd, ast.Sub) and isinstance(a, (set, frozenset)) and isinstance(b, (set, frozenset)):
                return {ast.BitOr: operator.or_, ast.BitAnd: operator.and_, ast.Sub: operator.sub}[op](a, b)
            if op is ast.BitOr and isinstance(a, dict) and isinstance(b, dict):
                return {**a, **b}  # dict union (a NEW dict: the operands stay as they are)
            if op in _ARITH and _plain(a) and _plain(b):
                return _guarded(_ARITH[op], a, b)
            raise _Cannot(f"`{u(e)[:60]}`: operands {type(a).__name__}, {type(b).__name__}")
        if t is ast.UnaryOp:
            v = self.val(e.operand, env)
            if isinstance(e.op, ast.Not):
                return not self.truth(v)
            if isinstance(v, _NUM) and isinstance(e.op, (ast.USub, ast.UAdd)):
                return -v if isinstance(e.op, ast.USub) else +v
            raise _Cannot(f"`{u(e)[:60]}`")
        if t is ast.BoolOp:
            r = None
            for x in e.values:
                r = self.val(x, env)
                if self.truth(r) != isinstance(e.op, ast.And):
                    return r
            return r
        if t is ast.Compare:
            left = self.val(e.left, env)
            for op, c in zip(e.ops, e.comparators):
                right = self.val(c, env)
                if left is _OPAQUE or right is _OPAQUE:
                    raise _Cannot(f"`{u(e)[:60]}`")
                if not isinstance(op, (ast.Is, ast.IsNot)):
                    for x in (left, right):
                        if isinstance(x, _Obj) and x.cls is not None and self.compares_by_value(x.cls):
                            raise _Cannot(f"`{u(e)[:60]}`: user-defined comparison")
                if isinstance(op, (ast.Lt, ast.LtE, ast.Gt, ast.GtE)) and not (_plain(left) and _plain(right)):
                    raise _Cannot(f"`{u(e)[:60]}`: ordering of {type(left).__name__}, {type(right).__name__}")
                if isinstance(op, (ast.In, ast.NotIn)) and not isinstance(right, _CONTAINERS):
                    raise _Cannot(f"`{u(e)[:60]}`: membership in a {type(right).__name__}")
                if not _guarded(_CMPOP[type(op)], left, right):
                    return False
                left = right
            return True
        if t is ast.IfExp:
            return self.val(e.body if self.truth(self.val(e.test, env)) else e.orelse, env)
        if t is ast.Call:
            return self.call(e, env)
        if t in (ast.Tuple, ast.List, ast.Set):
            out = []
            for x in e.elts:
                if isinstance(x, ast.Starred):
                    out += list(self.iterate(self.val(x.value, env)))
                else:
                    out.append(self.val(x, env))
            return tuple(out) if t is ast.Tuple else (out if t is ast.List else set(out))
        if t is ast.Dict:
            out = {}
            for k, v in zip(e.keys, e.values):
                if k is None:
                    out.update(self.val(v, env))
                else:
                    out[self.val(k, env)] = self.val(v, env)
            return out
        if t is ast.Subscript:
            base = self.val(e.value, env)
            idx = self.index(e.slice, env)
            if not isinstance(base, _CONTAINERS):
                raise _Cannot(f"`{u(e)[:60]}`: subscript of a {type(base).__name__}")
            return _guarded(operator.getitem, base, idx)
        if t in (ast.ListComp, ast.SetComp, ast.GeneratorExp, ast.DictComp):
            out = []
            self.comp(e, 0, dict(env), out)
            return out if t is ast.ListComp else (set(out) if t is ast.SetComp else (dict(out) if t is ast.DictComp else _Gen(out)))
        if t is ast.JoinedStr:
            out = []
            for v in e.values:
                if isinstance(v, ast.Constant):
                    out.append(str(v.value))
                else:
                    x = self.val(v.value, env)
                    spec = self.val(v.format_spec, env) if v.format_spec is not None else ""
                    if not _plain(x) or v.conversion not in (-1, 115, 114):
                        raise _Cannot(f"`{u(e)[:60]}`")
                    x = repr(x) if v.conversion == 114 else (str(x) if v.conversion == 115 else x)
                    out.append(_guarded(format, x, spec))
            return "".join(out)
        if t is ast.Lambda:
            return _FnDef(e, None, env)
        if t is ast.NamedExpr and isinstance(e.target, ast.Name):
            env[e.target.id] = self.val(e.value, env)
            return env[e.target.id]
        if t is ast.Starred:
            raise _Cannot("starred expression")
        raise _Cannot(f"{t.__name__} `{u(e)[:60]}`")

    def index(self, s, env):
        if isinstance(s, ast.Slice):
            return slice(*[self.val(x, env) if x is not None else None for x in (s.lower, s.upper, s.step)])
        return self.val(s, env)

    def comp(self, e, i, env, out):
        if i == len(e.generators):
            out.append((self.val(e.key, env), self.val(e.value, env)) if isinstance(e, ast.DictComp) else self.val(e.elt, env))
            return
        g = e.generators[i]
        if g.is_async:
            raise _Cannot("async comprehension")
        for x in self.iterate(self.val(g.iter, env)):
            self.tick()
            env2 = dict(env)
            self.assign(g.target, x, env2)
            if all(self.truth(self.val(c, env2)) for c in g.ifs):
                self.comp(e, i + 1, env2, out)

    # -- calls --------------------------------------------------------------------------------------------------------------------------------------------------------
    def arg(self, a, env):
        try:
            return self.val(a, env)
        except _Cannot:
            if self.touches_mutable(a, env):
                raise
            return _OPAQUE

    def call(self, e, env):
        d = _dotted(e.func) if self.hooks else None
        if d is not None and d in self.hooks:
            return self.hooks[d](e, env)
        if isinstance(e.func, (ast.Name, ast.Attribute)) and (e.func.id if isinstance(e.func, ast.Name) else e.func.attr) == "suppress" and not e.keywords:
            d2 = _dotted(e.func) or ""
            if d2 == "contextlib.suppress" or self.imports.get(d2) == "contextlib.suppress":
                return self.suppressing(e)
        if isinstance(e.func, ast.Attribute) and isinstance(e.func.value, ast.Call) and dotted(e.func.value.func) == "super" and not e.func.value.args:
            owner, slf = env.get("__class__"), env.get("__self__")
            if owner is None or not isinstance(slf, (_Obj, _Cls)):
                raise _Cannot("super() outside a method")
            f, o2 = self.lookup(slf.cls if isinstance(slf, _Obj) else slf.node, e.func.attr, after=owner)
            if f is None:
                if e.func.attr in ("__init__", "__enter__", "__exit__", "__init_subclass__"):
                    return slf if e.func.attr == "__enter__" else None  # object's own
                raise _Cannot(f"`{u(e.func)}`: base method outside the module")
            fv = _Bound(slf, _FnDef(f, o2))
        else:
            fv = self.val(e.func, env)
        args, kwargs = [], {}
        for a in e.args:
            if isinstance(a, ast.Starred):
                args += list(self.iterate(self.val(a.value, env)))
            else:
                args.append(self.arg(a, env))
        for k in e.keywords:
            if k.arg is None:
                kwargs.update(self.val(k.value, env))
            else:
                kwargs[k.arg] = self.arg(k.value, env)
        return self.apply(fv, args, kwargs, e)

    def pyfn(self, v):
        """a function of the evaluated world that a function of the host has to call (sort key, reducer)."""
        if isinstance(v, (_FnDef, _Bound)):
            return lambda *a, **k: self.apply(v, list(a), k)
        return v

    def apply(self, fv, args, kwargs, node=None):
        self.tick()
        if isinstance(fv, _FnDef):
            return self.call_def(fv.node, args, kwargs, fv.cls, fv.env)
        if isinstance(fv, _Bound):
            return self.call_def(fv.fn.node, [fv.obj] + list(args), kwargs, fv.fn.cls, fv.fn.env)
        if isinstance(fv, _Cls):
            if any((dotted(b) or "").rsplit(".", 1)[-1] in ("Enum", "IntEnum", "Exception", "BaseException") for c in self.mro(fv.node) for b in c.bases):
                raise _Cannot(f"instantiation of {fv.node.name}")
            if _is_namedtuple_class(fv.node):
                # class X(NamedTuple): the value IS a tuple (it unpacks, compares and indexes like the bare tuple it replaced) whose elements also have names
                if any(c.decorator_list for c in self.mro(fv.node)) or len(fv.node.bases) != 1:
                    raise _Cannot(f"instantiation of the named tuple class {fv.node.name} (decorated / further base classes)")
                return _guarded(self.record_type(fv.node), *args, **kwargs)
            if any(d is not _dataclass_deco(c) for c in self.mro(fv.node) for d in c.decorator_list):
                raise _Cannot(f"instantiation of the decorated class {fv.node.name}")
            obj = _Obj(fv.node, partial=False)
            f, owner = self.lookup(fv.node, "__init__")
            dc = next((c for c in self.mro(fv.node) if _dataclass_deco(c) is not None), None)
            if dc is not None and (f is None or not any(c is owner for c in self.mro(fv.node)[:[i for i, c in enumerate(self.mro(fv.node)) if c is dc][0] + 1])):
                self.dataclass_init(obj, fv.node, dc, list(args), dict(kwargs))  # @dataclass writes the constructor unless the class (or one before it in the MRO) has its own
            elif isinstance(f, source.FUNC_TYPES):
                self.call_def(f, [obj] + list(args), kwargs, owner)
            elif args or kwargs:
                raise _Cannot(f"{fv.node.name}(..): constructor outside the module")
            return obj
        if callable(fv) and not isinstance(fv, (_Obj, _Ref, _Opaque)):
            if getattr(fv, "__self__", None) is self or getattr(fv, "_machine", False):
                if any(a is _OPAQUE for a in list(args) + list(kwargs.values())) and not getattr(fv, "_opaque_ok", False):
                    raise _Cannot(f"`{u(node)[:60] if node is not None else fv}`: argument without a representative value")
                try:
                    return fv(*args, **kwargs)
                except TypeError as x:
                    if "argument" in str(x) and ("positional" in str(x) or "keyword" in str(x)):
                        raise _Cannot(f"a stand-in is called with other arguments than the rule expects: {x}")  # the collaborator's signature changed: not a verdict
                    raise
            if any(a is _OPAQUE for a in list(args) + list(kwargs.values())):
                raise _Cannot(f"`{u(node)[:60] if node is not None else fv}`: argument without a representative value")
            kwargs = {k: (self.pyfn(v) if k == "key" else v) for k, v in kwargs.items()}
            if fv is functools.reduce and args:
                args = [self.pyfn(args[0])] + list(args[1:])
            try:
                consuming = fv in _ITERATING
            except TypeError:
                consuming = False
            # a generator of the evaluated world is handed over as the values it yields; an iterable object only to the functions known to consume their argument
            args = [list(self.iterate(a)) if isinstance(a, _Gen) or (consuming and isinstance(a, _Obj)) else a for a in args]
            return _guarded(fv, *args, **kwargs)
        raise _Cannot(f"call `{u(node)[:60] if node is not None else fv!r}`")

    def bind(self, f, args, kwargs, env):
        a = f.args
        pos = [x.arg for x in a.posonlyargs + a.args]
        defaults = dict(zip(pos[len(pos) - len(a.defaults):], a.defaults))
        args = list(args)
        for i, p in enumerate(pos):
            if i < len(args):
                env[p] = args[i]
                if p in kwargs:
                    raise _Raised("TypeError", f"multiple values for argument '{p}'")
            elif p in kwargs and p not in [x.arg for x in a.posonlyargs]:
                env[p] = kwargs.pop(p)
            elif p in defaults:
                env[p] = self.arg(defaults[p], {})
            else:
                raise _Raised("TypeError", f"missing required argument '{p}'")
        if len(args) > len(pos):
            if a.vararg is None:
                raise _Raised("TypeError", f"takes {len(pos)} positional arguments but {len(args)} were given")
        if a.vararg is not None:
            env[a.vararg.arg] = tuple(args[len(pos):])
        for x, dflt in zip(a.kwonlyargs, a.kw_defaults):
            if x.arg in kwargs:
                env[x.arg] = kwargs.pop(x.arg)
            elif dflt is not None:
                env[x.arg] = self.arg(dflt, {})
            else:
                raise _Raised("TypeError", f"missing keyword-only argument '{x.arg}'")
        if a.kwarg is not None:
            env[a.kwarg.arg] = dict(kwargs)
        elif kwargs:
            raise _Raised("TypeError", f"unexpected keyword argument '{next(iter(kwargs))}'")

    _TRANSPARENT = {"staticmethod", "classmethod", "property", "cached_property", "abstractmethod", "lru_cache", "cache", "wraps", "override", "final", "no_type_check"}

    def call_def(self, f, args, kwargs, owner=None, closure=None):
        if self.depth > 60:
            raise _Cannot("call depth")
        for d in getattr(f, "decorator_list", []):
            d = d.func if isinstance(d, ast.Call) else d
            if (dotted(d) or "?").rsplit(".", 1)[-1] not in self._TRANSPARENT:
                raise _Cannot(f"`{f.name}` is wrapped by the decorator `{u(d)[:40]}`")
        env = dict(closure) if closure else {}
        self.bind(f, args, dict(kwargs), env)
        if isinstance(f, ast.Lambda):
            return self.val(f.body, env)
        env["__fn__"] = f
        if isinstance(f, ast.AsyncFunctionDef):
            raise _Cannot("coroutine")
        if owner is not None:
            env["__class__"] = owner
            env["__self__"] = args[0] if args else None
        self.depth += 1
        try:
            if _has_yield(f):
                env["__yields__"] = []
                self.exec(f.body, env)
                return _Gen(env["__yields__"])
            r = self.exec(f.body, env)
            return r[1] if r[0] == "return" else None
        finally:
            self.depth -= 1

    # -- statements ---------------------------------------------------------------------------------------------------------------------------------------------------
    def assign(self, t, v, env, keep=()):
        if isinstance(t, ast.Name):
            if t.id not in keep:
                env[t.id] = v
        elif isinstance(t, ast.Attribute):
            k = dotted(t)
            head = k.split(".", 1)[0] if k is not None else None
            if k is not None and (k in env or (head not in env and self.glob(head) is _MISSING)):
                if k not in keep:
                    env[k] = v  # the rule fixes single attributes by their dotted text
                return
            base = self.val(t.value, env)
            if not isinstance(base, _Obj):
                raise _Cannot(f"assignment to an attribute of a {type(base).__name__}")
            if base.cls is not None:
                d, owner = self.lookup(base.cls, t.attr)
                if isinstance(d, source.FUNC_TYPES) and self._decorated(d, "property"):
                    f, o2 = self.setter(base.cls, t.attr)
                    if f is None:
                        raise _Raised("AttributeError", f"property '{t.attr}' of '{base.cls.name}' object has no setter")
                    self.call_def(f, [base, v], {}, o2)
                    return
            base.attrs[t.attr] = v
        elif isinstance(t, ast.Subscript):
            base = self.val(t.value, env)
            if not isinstance(base, (list, dict, collections.deque)):
                raise _Cannot(f"item assignment on a {type(base).__name__}")
            _guarded(operator.setitem, base, self.index(t.slice, env), v)
        elif isinstance(t, (ast.Tuple, ast.List)):
            if v is _OPAQUE:
                for x in ast.walk(t):
                    if isinstance(x, ast.Name) and isinstance(x.ctx, ast.Store) and x.id not in keep:
                        env[x.id] = _OPAQUE
                    elif isinstance(x, (ast.Attribute, ast.Subscript)) and isinstance(x.ctx, ast.Store):
                        self.assign(x, _OPAQUE, env, keep)
                return
            if any(isinstance(x, ast.Starred) for x in t.elts):
                raise _Cannot("starred assignment target")
            items = list(self.iterate(v))
            if len(items) != len(t.elts):
                raise _Raised("ValueError", f"cannot unpack {len(items)} values into {len(t.elts)} targets")
            for x, y in zip(t.elts, items):
                self.assign(x, y, env, keep)
        else:
            raise _Cannot(f"assignment target {type(t).__name__}")

    def value_or_opaque(self, e, env):
        try:
            return self.val(e, env)
        except _Cannot:
            if self.touches_mutable(e, env):
                raise
            return _OPAQUE

    def exec(self, stmts, env, keep=()):
        """run extracted statements on representative values: ('return', value), ('break' | 'continue', None) or ('fall', None); raises _Raised when the code raises and _Cannot when
        it uses something that is not interpreted. A value that cannot be computed is stored as opaque (using it later is _Cannot); names in `keep` stay as preset (the rule fixed
        their value). Expression statements that cannot be evaluated (logging, calls into libraries) are skipped unless they are handed a mutable object of the evaluated world."""
        for s in stmts:
            self.tick()
            if isinstance(s, (ast.Pass, ast.Assert, ast.Import, ast.ImportFrom, ast.Global, ast.Nonlocal)):
                continue
            if isinstance(s, ast.Expr):
                v = s.value
                if isinstance(v, ast.Constant):
                    continue
                if isinstance(v, (ast.Yield, ast.YieldFrom)):
                    if "__yields__" not in env:
                        raise _Cannot("yield outside an evaluated generator")
                    if isinstance(v, ast.Yield):
                        env["__yields__"].append(self.val(v.value, env) if v.value is not None else None)
                    else:
                        env["__yields__"] += list(self.iterate(self.val(v.value, env)))
                    continue
                try:
                    self.val(v, env)
                except _Cannot:
                    if self.touches_mutable(v, env) and not _is_logging(v):
                        raise
                    if self.strict_effects and not _is_logging(v) and not (isinstance(v, ast.Call) and (dotted(v.func) or "").startswith(("console.", "logging.", "print", "warnings."))):
                        raise  # (the skipped statement may be the very effect the rule asks about - `shutil.rmtree(..)`, a library call: not decided rather than 'no effect')
            elif isinstance(s, (ast.Assign, ast.AnnAssign)):
                if s.value is None:
                    continue
                v = self.value_or_opaque(s.value, env)
                for t in (s.targets if isinstance(s, ast.Assign) else [s.target]):
                    self.assign(t, v, env, keep)
            elif isinstance(s, ast.AugAssign):
                cur = getattr(s, "_c03_expanded", None)
                if cur is None:
                    cur = s._c03_expanded = ast.copy_location(ast.BinOp(left=ast.parse(u(s.target), mode="eval").body, op=s.op, right=s.value), s)
                old = self.peek(s.target, env)
                if isinstance(old, (list, collections.deque)) and isinstance(s.op, ast.Add):
                    old.extend(self.iterate(self.val(s.value, env)))  # in place, as the host language does it: other references see the new items
                elif isinstance(old, (dict, set)) and isinstance(s.op, ast.BitOr):
                    new = self.val(s.value, env)
                    if not isinstance(new, type(old)) and not (isinstance(old, set) and isinstance(new, frozenset)):
                        raise _Cannot(f"`{u(s)[:60]}`: operands {type(old).__name__}, {type(new).__name__}")
                    old.update(new)  # in place as well
                else:
                    self.assign(s.target, self.value_or_opaque(cur, env), env, keep)
            elif isinstance(s, ast.If):
                try:
                    arm = s.body if self.truth(self.val(s.test, env)) else s.orelse
                except _Cannot:
                    # `if <logger>.isEnabledFor(..): <log statements>`: whichever way it goes, the evaluated program cannot tell
                    if not (not s.orelse and all(isinstance(x, ast.Expr) and _is_logging(x.value) for x in s.body) and any(isinstance(x, ast.Attribute) and x.attr == "isEnabledFor" for x in ast.walk(s.test))):
                        raise
                    continue
                r = self.exec(arm, env, keep)
                if r[0] != "fall":
                    return r
            elif isinstance(s, ast.While):
                broke = False
                while self.truth(self.val(s.test, env)):
                    self.tick()
                    r = self.exec(s.body, env, keep)
                    if r[0] == "return":
                        return r
                    if r[0] == "break":
                        broke = True
                        break
                if not broke:
                    r = self.exec(s.orelse, env, keep)
                    if r[0] != "fall":
                        return r
            elif isinstance(s, ast.For):
                broke = False
                for x in self.iterate(self.val(s.iter, env)):
                    self.tick()
                    self.assign(s.target, x, env, keep)
                    r = self.exec(s.body, env, keep)
                    if r[0] == "return":
                        return r
                    if r[0] == "break":
                        broke = True
                        break
                if not broke:
                    r = self.exec(s.orelse, env, keep)
                    if r[0] != "fall":
                        return r
            elif isinstance(s, ast.Return):
                return "return", (self.val(s.value, env) if s.value is not None else None)
            elif isinstance(s, (ast.Break, ast.Continue)):
                return ("break" if isinstance(s, ast.Break) else "continue"), None
            elif isinstance(s, ast.Raise):
                if s.exc is None:
                    if self._handling:
                        raise self._handling[-1]
                    raise _Cannot("bare raise outside a handler")
                x = s.exc.func if isinstance(s.exc, ast.Call) else s.exc
                if isinstance(x, ast.Name) and isinstance(env.get(x.id), _Exc):
                    raise _Raised(env[x.id].name)
                raise _Raised((dotted(x) or "?").rsplit(".", 1)[-1])
            elif isinstance(s, ast.Try):
                try:
                    r = self.exec(s.body, env, keep)
                    if r[0] == "fall":
                        r = self.exec(s.orelse, env, keep)
                except _Raised as x:
                    names = (x.name,) + _BASES.get(x.name, ()) + (() if isinstance(x, _Diverges) else ("Exception", "BaseException"))
                    r = None
                    for h in s.handlers:
                        hs = [h.type] if h.type is not None and not isinstance(h.type, ast.Tuple) else (h.type.elts if h.type is not None else [])
                        if (h.type is None and not isinstance(x, _Diverges)) or any((dotted(t) or "").rsplit(".", 1)[-1] in names for t in hs):
                            if h.name:
                                env[h.name] = _Exc(x.name)
                            self._handling.append(x)
                            try:
                                r = self.exec(h.body, env, keep)
                            except _Raised:
                                self._handling.pop()
                                self.exec(s.finalbody, env, keep)
                                raise
                            self._handling.pop()
                            break
                    if r is None:
                        self.exec(s.finalbody, env, keep)
                        raise
                f = self.exec(s.finalbody, env, keep)
                if f[0] != "fall":
                    return f
                if r[0] != "fall":
                    return r
            elif isinstance(s, ast.With):
                cms = []
                for it in s.items:
                    cm = self.val(it.context_expr, env)
                    if not isinstance(cm, _Obj):
                        raise _Cannot(f"context manager `{u(it.context_expr)[:50]}`")
                    r = self.apply(self.getattr(cm, "__enter__"), [], {})
                    cms.append(cm)
                    if it.optional_vars is not None:
                        self.assign(it.optional_vars, r, env, keep)
                try:
                    r = self.exec(s.body, env, keep)
                except _Raised as x_:
                    swallowed = False
                    for cm in reversed(cms):
                        swallowed = self.truth(self.apply(self.getattr(cm, "__exit__"), [_Exc(x_.name), _Exc(x_.name), _OPAQUE], {})) or swallowed
                    if not swallowed:
                        raise
                    r = ("fall", None)
                else:
                    for cm in reversed(cms):
                        self.apply(self.getattr(cm, "__exit__"), [None, None, None], {})
                if r[0] != "fall":
                    return r
            elif isinstance(s, source.FUNC_TYPES):
                env[s.name] = _FnDef(s, None, env)
            else:
                raise _CannotStmt(s)
        return "fall", None


def _val(e, env, imports=None, hooks=None):
    """value of an extracted expression. env: dotted text of a name / attribute chain ('all_bulks', 'self.total_bulks') -> value; imports: the module's import aliases (to resolve
    `Fraction` / `fractions.Fraction`); hooks: dotted callee -> function(call node, env) for the calls a rule wants to interpret itself."""
    return _M(None, imports or {}, hooks).val(e, env)


def _exec(stmts, env, imports=None, hooks=None, keep=()):
    """run extracted straight-line / if / try / loop statements on representative values (see _M.exec); no function of the analysed module is entered."""
    return _M(None, imports or {}, hooks).exec(stmts, env, keep)


# ingest-percentage cut-off: (bulks of the group, ingest-percentage as float_param() delivers it) -> ceil(p% of the bulks), computed by hand / exactly. The first rows are products
# that are integers mathematically but not in binary floating point (1500 * 2.2 / 100 == 33.00000000000001).
_CUTOFF_ROWS = [(1500, 2.2, 33), (3000, 1.1, 33), (2500, 0.28, 7), (100000, 0.07, 70), (200, 50.0, 100), (7, 100.0, 7), (3, 33.4, 2), (10, 25.0, 3), (1, 0.5, 1), (0, 100.0, 0),
                (10 ** 12, 100.0, 10 ** 12), (999, 99.9, 999)]


assert all(math.ceil(fractions.Fraction(str(p_)) * n_ / 100) == w_ for n_, p_, w_ in _CUTOFF_ROWS)

_L = "esrally/track/loader.py"
_SAMPLE = "/data/corpus/documents.json"


def _own_params(f):
    """parameters of a function / method without self / cls."""
    ps = params_of(f)
    static = any(dotted(d) == "staticmethod" for d in getattr(f, "decorator_list", []))
    return ps[1:] if ps and ps[0] in ("self", "cls") and not static else ps


def _str_value(e, name, mod=None, extra=None):
    """value of a file-name expression over one path parameter, evaluated for a sample path (None when it cannot be evaluated). mod: the module the expression stands in - its
    functions, classes and constants may take part in the computation (`cls.table_path(p)`, `p + SUFFIX`)."""
    env = {name: _SAMPLE}
    env.update(extra or {})
    try:
        v = _M(mod, None, None, None, budget=20000).val(e, env)
    except (_Cannot, _Raised):
        return None
    return v if isinstance(v, str) else None


def _deleted_path_expr(c):
    """the expression naming the file a call deletes: os.remove(T) / os.unlink(T) / pathlib.Path(T).unlink(..), else None."""
    d = dotted(c.func)
    if d in ("os.remove", "os.unlink") and len(c.args) == 1:
        return c.args[0]
    if isinstance(c.func, ast.Attribute) and c.func.attr == "unlink" and isinstance(c.func.value, ast.Call) and _last(c.func.value.func) in ("Path", "PurePath") and len(c.func.value.args) == 1:
        return c.func.value.args[0]
    return None


def _path_param(f):
    """the parameter of an io function / static or class method that names the data file: its ONLY parameter without a default value (options such as `missing_ok=False` stand
    behind it and do not change which file is meant), else None."""
    a = f.args
    pos = [x.arg for x in a.posonlyargs + a.args]
    optional = set(pos[len(pos) - len(a.defaults):] if a.defaults else []) | {x.arg for x, d_ in zip(a.kwonlyargs, a.kw_defaults) if d_ is not None}
    required = [p for p in _own_params(f) + [x.arg for x in a.kwonlyargs] if p not in optional]
    return required[0] if len(required) == 1 else None


def _removed_files(io_, f, depth=0):
    """names of the files an io function deletes for the sample data path (directly - os.remove / os.unlink / Path(..).unlink - or through another function / static or class method
    of the module it hands its path to, whatever options go with it); None among them: a deletion whose file name cannot be evaluated."""
    p = _path_param(f)
    out = set()
    if p is None or depth > 3:
        return out
    if depth == 0:
        if getattr(f, "_c03_removed", None) is None:
            f._c03_removed = _removed_files(io_, f, 1)  # (kept with the parsed function: asked for many times per run)
        return set(f._c03_removed)
    ps = _own_params(f) + [x.arg for x in f.args.kwonlyargs]
    owner = source.enclosing_class(f)
    extra = {"cls": _Cls(owner), "self": _Obj(owner)} if isinstance(owner, ast.ClassDef) else {}
    for c in source.calls_in(f):
        d = dotted(c.func)
        t = _deleted_path_expr(c)
        if t is not None:
            # (locals are inlined unless the object they name is modified afterwards: `table.path = tmp` - the deletion then names whatever the attribute holds at that point)
            touched = {n_.value.id for n_ in walk_body(f) if isinstance(n_, ast.Attribute) and isinstance(n_.ctx, (ast.Store, ast.Del)) and isinstance(n_.value, ast.Name)}
            out.add(_str_value(inline_node(t, {k: v for k, v in local_defs(f).items() if k not in ps and k not in touched}), p, io_, extra))
        elif d is not None:
            if d.split(".", 1)[0] in ("cls", "self") and isinstance(owner, ast.ClassDef) and "." in d:
                d = f"{owner.name}.{d.split('.', 1)[1]}"
            callee = io_.get(d, required=False)
            # the callee is handed this function's path as ITS path (by position or by keyword)
            if isinstance(callee, source.FUNC_TYPES) and callee is not f and _path_param(callee) is not None and pat.is_(bind_args(c, callee).get(_path_param(callee)), "V_p", binds={"p": p}):
                out |= _removed_files(io_, callee, depth + 1)
    return out


def _may_delete(io_, f, depth=0) -> bool:
    """the io function (or a function / method of the module it calls by name) contains a statement that deletes a file."""
    if depth > 3:
        return True
    owner = source.enclosing_class(f)
    for c in source.calls_in(f):
        if _deleted_path_expr(c) is not None or (dotted(c.func) or "") in ("shutil.rmtree", "shutil.move", "os.replace", "os.rename"):
            return True
        d = dotted(c.func) or ""
        if d.split(".", 1)[0] in ("cls", "self") and isinstance(owner, ast.ClassDef) and "." in d:
            d = f"{owner.name}.{d.split('.', 1)[1]}"
        callee = io_.get(d, required=False) if d else None
        # (a method called on an object - `Table.for_file(p).delete()`, `table.delete()` -: whichever class of the module defines a method of that name)
        callees = [callee] if isinstance(callee, source.FUNC_TYPES) else \
            [m_ for k_ in io_.classes() for m_ in io_.methods(k_).values() if isinstance(c.func, ast.Attribute) and m_.name == c.func.attr and not is_self_attr(c.func)] if callee is None else []
        if any(g_ is not f and _may_delete(io_, g_, depth + 1) for g_ in callees):
            return True
    return False


def _stale_table_rule(chk, ldr, io_):
    """O3.10 (F25): O3.7 decides that a table is trusted on its modification time alone (valid iff it exists and is not older than the data file) and that a valid table is neither
    rebuilt nor counted. A data file that Rally itself (re)creates - decompressing an archive restores the ARCHIVED mtime, a download may do the same - can therefore meet the table of
    its predecessor and look older than it. Necessary: whatever (re)creates the document file also removes an existing table of that file before the table is prepared.

    How it is decided (hardening round 3): 'no table of this file exists' is a FACT ESTABLISHED ALONG EDGES of a function's control-flow graph - the normal out-edges of a statement
    that deletes the table (the io module's remover, os.remove / Path.unlink of the table's name, an own helper - method or module-level function - that establishes the fact for
    the parameter the path is bound to on each of its normal paths) and the branch of a test that can only be taken when the table is absent (the test is EVALUATED in worlds
    with and without the table file: `if os.path.exists(f"{p}.offset")`, a hoisted `stale = ...`, a guard clause `if not exists: return`, `Table.read_for_data_file(p).exists()`).
    A (re)creation is in order when no normal path from it to the table preparation avoids those edges (or every path to it passes one and no preparation lies in between). File
    names are compared as VALUES for a sample data path. Falsified only when every statement on the way that is handed the path is understood; a call of unknown effect that
    receives the path makes the verdict 'not recognised'.

    Hardening round 4: the remover is located by what it DOES, not by its name or signature: every call (chain) of the loader that is rooted in an io callable - module function,
    static / class method (`io.FileOffsetTable.remove(p)`), method of the object a factory returned (`table.delete()`) - is run for the sample path in the rule's file system; the
    files it tries to delete make it a remover (`deleted_by_value`), and at a statement of the preparator the call establishes the fact iff it returns without the table whenever
    it returns, and does return with the table in place (`removal_by_value`: options such as `missing_ok=True`, a required flag, wrappers, try / except FileNotFoundError are
    simply executed). The deletions written in the callable for its path parameter (`_removed_files`, `_path_param`: the only parameter without a default) remain the fallback
    when a call cannot be run."""
    chk.rule("O3.10", "offset tables are only used with the file they were built from: the table's file name is the same for writer, reader and remover, and every statement of the corpus "
             "preparation that (re)creates the document file (decompress into it, download to a target that may be it) removes an existing offset table of that file on every normal "
             "path before the table is prepared", 4,
             "an updated corpus extracted from a tar archive keeps the archive's (older) mtime: the predecessor's table looks valid, the line count is not checked and every client whose "
             "slice starts beyond 50,000 lines seeks to the OLD file's offsets - documents ingested twice and never")
    # ---- the io side: the table class, the table's file name as its factories compute it, the module's remover and preparer -------------------------------------------------
    FT = io_.index().get("FileOffsetTable")
    if not isinstance(FT, ast.ClassDef):
        # role: the class whose factories (class methods returning cls(..)) create the table object for a data file
        cands = [c for c in io_.classes() if sum(1 for m in io_.methods(c).values() if any(isinstance(x, ast.Return) and isinstance(x.value, ast.Call) and dotted(x.value.func) in ("cls", c.name)
                                                                                              for x in walk_body(m))) >= 2]
        if len(cands) != 1:
            raise AnchorMissing(f"{_I}: the offset table class (FileOffsetTable) is not located")
        FT = cands[0]
    finit = _meth(io_, FT, "__init__")
    opened = [c.args[0].attr for m in io_.methods(FT).values() for c in source.calls_in(m) if dotted(c.func) == "open" and c.args and is_self_attr(c.args[0])]
    tparam = [x.value.id for x in walk_body(finit) if isinstance(x, ast.Assign) and opened and is_self_attr(x.targets[0], opened[0]) and isinstance(x.value, ast.Name)]
    if not tparam:
        raise AnchorMissing("FileOffsetTable: constructor parameter holding the table's own path")
    names = {}
    for m in io_.methods(FT).values():
        for r in [x for x in walk_body(m) if isinstance(x, ast.Return) and isinstance(x.value, ast.Call) and dotted(x.value.func) in ("cls", FT.name)]:
            a = bind_args(r.value, finit).get(tparam[0])
            ps = _own_params(m)
            if a is not None and len(ps) == 1:
                names[m.name] = _str_value(inline_node(a, {k: v for k, v in local_defs(m).items() if k not in ps}), ps[0], io_, {"cls": _Cls(FT)})
    io_funcs = {f.name: f for f in io_.tree.body if isinstance(f, source.FUNC_TYPES)}
    # what the loader can call in the io module: its functions and the static / class methods of its classes (`io.remove_file_offset_table(p)`, `io.FileOffsetTable.remove(p)`)
    io_callables = dict(io_funcs)
    for c_ in [c_ for c_ in io_.tree.body if isinstance(c_, ast.ClassDef)]:
        for mm in io_.methods(c_).values():
            if any(_last(d) in ("classmethod", "staticmethod") for d in mm.decorator_list):
                io_callables[f"{c_.name}.{mm.name}"] = mm
    io_path = io_.modname

    def io_callee(c, mod):
        """the io module's function / static or class method a call in `mod` names (through the module alias or a direct import of the function or of the class), else None."""
        d = dotted(c.func)
        if d is None:
            return None
        head, _, rest = d.partition(".")
        full = f"{mod.imports[head]}.{rest}" if rest and head in mod.imports else (mod.imports.get(d) if not rest else None)
        if full is not None and full.startswith(io_path + ".") and full[len(io_path) + 1:] in io_callables:
            return io_callables[full[len(io_path) + 1:]]
        return None

    # ---- evaluation of file names and existence tests written in the loader: a machine over the loader whose view of the io module is a second machine over io, and whose file
    # system is a set of existing paths the rule controls
    world: set = set()
    attempts: list = []  # names of the files the evaluated code tried to delete
    m_io = _M(io_, None, None, None, budget=200000)

    def delete(p, missing_ok=False):
        """os.remove / os.unlink / Path.unlink in the rule's file system: the file is gone afterwards; deleting what is not there fails as it does in the host."""
        if not isinstance(p, str):
            raise _Cannot("deletion of a file whose name has no representative value")
        attempts.append(p)
        if p in world:
            world.discard(p)
        elif not missing_ok:
            raise _Raised("FileNotFoundError", p)

    def path_obj(*parts):
        p = "/".join(str(x) for x in parts)
        return _Obj(None, {"name": p.rsplit("/", 1)[-1]}, {"exists": _stub(lambda: p in world), "is_file": _stub(lambda: p in world), "__str__": _stub(lambda: p),
                                                          "unlink": _stub(lambda missing_ok=False: delete(p, missing_ok))}, f"path {p}")

    fs = {"os.path.exists": _stub(lambda p: p in world), "os.path.isfile": _stub(lambda p: p in world), "os.path.lexists": _stub(lambda p: p in world),
          "pathlib.Path": _stub(path_obj), "os.fspath": _stub(lambda p: p), "os.path.join": _stub(lambda *a: "/".join(a)),
          "os.remove": _stub(lambda p: delete(p)), "os.unlink": _stub(lambda p: delete(p))}
    m_io.ext.update(fs)
    bridge = dict(fs)
    for g_ in io_funcs.values():
        bridge[f"{io_path}.{g_.name}"] = _stub(lambda *a, _g=g_, **k: m_io.apply(_FnDef(_g), list(a), k))
    for c_ in [c_ for c_ in io_.tree.body if isinstance(c_, ast.ClassDef)]:
        for mm in io_.methods(c_).values():
            if any(_last(d) in ("classmethod", "staticmethod") for d in mm.decorator_list):
                bridge[f"{io_path}.{c_.name}.{mm.name}"] = _stub(lambda *a, _c=c_, _n=mm.name, **k: m_io.apply(m_io.getattr(_Cls(_c), _n), list(a), k))
    io_defs = {id(n_) for n_ in ast.walk(io_.tree) if isinstance(n_, source.FUNC_TYPES + (ast.Lambda,))}

    class _LoaderMachine(_M):
        """the loader's machine; a method of an object that the io module's code created (the table object a factory returned: `table.exists()`, `table.delete()`) runs where it was
        written - in the io machine, with the io module's imports and globals."""

        def call_def(self, f, args, kwargs, owner=None, closure=None):
            if id(f) in io_defs:
                return m_io.call_def(f, args, kwargs, owner, closure)
            return _M.call_def(self, f, args, kwargs, owner, closure)

    m_l = _LoaderMachine(ldr, None, None, bridge, budget=200000)
    m_l.strict_effects = m_io.strict_effects = True  # a statement that cannot be run may be the deletion the rule asks about

    def io_root(c):
        """the io callable at the root of a call (chain): `io.f(p)`, `io.Table.for_file(p).method()`, else None."""
        n_ = c
        while isinstance(n_.func, ast.Attribute) and isinstance(n_.func.value, ast.Call):
            n_ = n_.func.value
        return io_callee(n_, ldr)

    def io_objects(f):
        """single-assignment locals of f that hold what an io callable returned (`table = io.FileOffsetTable.read_for_data_file(p)`): a call on them is a call on that object."""
        return {k_: v for k_, v in local_defs(f).items() if isinstance(v, ast.Call) and io_root(v) is not None}

    def deleted_by_value(f, c):
        """names of the files a call (chain) rooted in an io callable, written in the loader function f, tries to delete when every parameter / local of f it mentions is the sample
        path - found by RUNNING it in the rule's file system with the table in place; None when it cannot be run."""
        e = inline_node(c, io_objects(f))
        if io_root(e) is None:
            return None
        env = {n_.id: _SAMPLE for n_ in ast.walk(e) if isinstance(n_, ast.Name) and (n_.id in _own_params(f) or n_.id in _local_names(f))}
        if not env:
            return None
        del attempts[:]
        for files in ({table, _SAMPLE}, {_SAMPLE}):
            world.clear()
            world.update(files)
            m_l.steps = m_io.steps = 0
            try:
                m_l.val(e, env)
            except _Raised:
                pass
            except _Cannot:
                return None
        return set(attempts)

    def evaluated_deletions(g_):
        """the io callable deletes files, and the name of each of them is evaluated."""
        return bool(_removed_files(io_, g_)) and None not in _removed_files(io_, g_)

    table = next(iter(names.values()), None)
    if len(names) < 2 or any(v is None for v in names.values()):
        raise AnchorMissing(f"FileOffsetTable: the factories that compute the table's file name for a data file (evaluated: {names})")
    prep = io_funcs.get("prepare_file_offset_table")
    called_from_loader = {}
    # role: the remover(s) - what the loader calls in the io module (a function, a static / class method, a method of the table object a factory returned) that deletes files: the
    # names of the deleted files are found by RUNNING the call for a sample path, and - when it cannot be run - by evaluating the deletions written in the callable for its path
    # parameter. (The preparer also deletes: its unfinished temporary table, whose name is whatever the table object holds at that point.) The module's wrapper may have been
    # inlined into its callers (`io.FileOffsetTable.remove(p)`) or may have gained options (`missing_ok=False`): what counts is the file that is deleted for the data path.
    rms = []  # (node to report, names of the files it deletes)
    for f in ldr.functions():
        objs = None
        for c in source.calls_in(f):
            g_ = io_callee(c, ldr)
            if g_ is not None:
                called_from_loader[id(g_)] = g_
            if g_ is prep and prep is not None:
                continue
            on_object = False
            if g_ is None and isinstance(c.func, ast.Attribute) and isinstance(c.func.value, (ast.Name, ast.Call)):
                # a method of the object an io callable returned: `io.Table.for_file(p).delete()` / `table.delete()`
                objs = io_objects(f) if objs is None else objs
                on_object = io_root(c) is not None if isinstance(c.func.value, ast.Call) else c.func.value.id in objs
            dv = deleted_by_value(f, c) if (g_ is not None and _may_delete(io_, g_)) or on_object else None
            if dv:
                rms.append((g_ if g_ is not None else c, dv))
            elif dv is None and g_ is not None and evaluated_deletions(g_):
                rms.append((g_, _removed_files(io_, g_)))
    if io_funcs.get("remove_file_offset_table") is not None and not any(g_ is io_funcs["remove_file_offset_table"] for g_, _ in rms) and evaluated_deletions(io_funcs["remove_file_offset_table"]):
        rms.insert(0, (io_funcs["remove_file_offset_table"], _removed_files(io_, io_funcs["remove_file_offset_table"])))
    if prep is None:
        # role: the one-parameter io function the loader calls that writes the table (enters a table object as a context manager)
        cands = [g_ for g_ in called_from_loader.values() if not any(g_ is r_ for r_, _ in rms) and len(_own_params(g_)) == 1 and any(isinstance(x, ast.With) for x in walk_body(g_))
                 and any(isinstance(x, ast.Name) and x.id == FT.name for x in ast.walk(g_))]
        prep = cands[0] if len(cands) == 1 else None
    if any(dl == {table} for _, dl in rms):
        rms = [(g_, dl) for g_, dl in rms if dl == {table}]  # (next to a remover of the table, a callable that deletes some other file is not this rule's business)
    removed = set().union(*[dl for _, dl in rms]) if rms else set()
    # located and evaluated first (else: not recognised), compared second
    if not rms or not removed or None in removed:
        raise AnchorMissing(f"{_I}: what the loader calls in the io module to delete the offset table of a data file, and the file(s) that deletes (evaluated: {sorted(map(str, removed))})")
    ok = set(names.values()) == {table} and removed == {table}
    chk.ob("O3.10", "writer, reader and remover of the table use the same file name for a data file", ok, rms[0][0], f"factories: {names}; removed: {sorted(map(str, removed))}",
           key=f"{_I}:remove_file_offset_table:table-name")
    if prep is None:
        raise AnchorMissing(f"{_I}: prepare_file_offset_table")
    DP = ldr.index().get("DocumentSetPreparator")
    if not isinstance(DP, ast.ClassDef):
        # role: the class of the loader whose methods have the table prepared
        cands = [c for c in ldr.classes() if any(io_callee(k_, ldr) is prep for m in ldr.methods(c).values() for k_ in source.calls_in(m))]
        if len(cands) != 1:
            raise AnchorMissing(f"{_L}: the class that prepares document sets (DocumentSetPreparator) is not located")
        DP = cands[0]
    meths = ldr.methods(DP)
    mod_funcs = {f.name: f for f in ldr.tree.body if isinstance(f, source.FUNC_TYPES)}
    removers = {id(g_) for g_ in io_callables.values() if _removed_files(io_, g_) == {table}}  # io callables that delete the table of the path they are handed - and nothing else

    def own_callee(c):
        """the own helper a call names: a method of the preparator (self.m / cls.m / Class.m) or a module-level function of the loader, else None."""
        f_ = c.func
        if isinstance(f_, ast.Attribute) and isinstance(f_.value, ast.Name) and f_.value.id in ("self", "cls", DP.name) and f_.attr in meths:
            return meths[f_.attr]
        if isinstance(f_, ast.Name) and f_.id in mod_funcs:
            return mod_funcs[f_.id]
        return None

    def definite(f, x):
        """locals of f that hold the value of x whenever they are read: x itself and single-assignment locals bound to such a name."""
        out, defs = {x}, local_defs(f)
        for _ in range(4):
            out |= {k_ for k_, v in defs.items() if isinstance(v, ast.Name) and v.id in out}
        return out

    def may_alias(f, x):
        """locals of f that MAY hold the value of x (`target_path = doc_path` in one arm)."""
        return {x} | {t.id for st in walk_body(f) if isinstance(st, ast.Assign) and pat.is_(st.value, "V_x", binds={"x": x}) for t in st.targets if isinstance(t, ast.Name)}

    def lvalue(f, e, dn):
        """value of a path expression written in f for the sample path (the names in dn - the path and the locals that definitely hold it - are the sample; other single-assignment
        locals are inlined)."""
        m_l.steps = m_io.steps = 0
        try:
            v = m_l.val(inline_node(e, {k_: v for k_, v in local_defs(f).items() if k_ not in dn}), {n_: _SAMPLE for n_ in dn})
        except (_Cannot, _Raised):
            return None
        return v if isinstance(v, str) else None

    def absent_branch(f, test, dn):
        """'true' / 'false': the branch of this test that is only taken when no table of the path (held by the names in dn) exists - the test is evaluated with the table present
        (with and without the data file: the other branch is taken both times) and with the table absent (this branch is taken); None when the test says nothing of the kind or
        cannot be evaluated."""
        t = inline_node(test, {k_: v for k_, v in local_defs(f).items() if k_ not in dn})
        got = []
        for files in ({table, _SAMPLE}, {table}, {_SAMPLE}):
            world.clear()
            world.update(files)
            m_l.steps = m_io.steps = 0
            try:
                got.append(bool(m_l.truth(m_l.val(t, {n_: _SAMPLE for n_ in dn}))))
            except (_Cannot, _Raised):
                return None
        return {(True, True, False): "false", (False, False, True): "true"}.get(tuple(got))

    def removal_by_value(f, c, dn):
        """what a call of an io callable written in f does to the table of the path (held by the names in dn), decided by RUNNING it in the rule's file system - whatever the
        callable is called, whichever options it takes (`missing_ok=True`) and however the path reaches it: True - whenever it returns normally no table of the path exists, and
        with the table in place it does return (an existing table is deleted, not merely looked at); False - it can return with the table still there; None - the call cannot be
        evaluated. (With the table absent it may return or raise: a raise has no normal out-edge.)"""
        e = inline_node(c, {k_: v for k_, v in local_defs(f).items() if k_ not in dn})
        for files in ({table, _SAMPLE}, {table}, {_SAMPLE}, set()):
            world.clear()
            world.update(files)
            m_l.steps = m_io.steps = 0
            try:
                m_l.val(e, {n_: _SAMPLE for n_ in dn})
            except _Raised:
                if table in files:
                    return False  # (the table is there and the call fails: nothing this rule could call a removal)
                continue
            except _Cannot:
                return None
            if table in world:
                return False
        return True

    est_cache: dict = {}

    def establishing_edges(f, dn, depth=0):
        """edges of f's control-flow graph along which 'no offset table of the file named by (any of the locals in) dn exists' is established."""
        g = cfg_of(f)
        edges = []
        for st in walk_body(f):
            if isinstance(st, (ast.If, ast.While)):
                br = absent_branch(f, st.test, dn) if any(isinstance(n_, ast.Name) and n_.id in dn for n_ in ast.walk(inline_node(st.test, {k_: v for k_, v in local_defs(f).items() if k_ not in dn}))) else None
                if br is not None:
                    for tn in g.nodes_of(st):
                        edges += [(tn.id, y, lab) for (y, lab) in g.succ[tn.id] if lab == br]
                continue
            c = st.value if isinstance(st, (ast.Expr, ast.Assign, ast.AnnAssign, ast.Return)) else None
            c = c.value if isinstance(c, ast.Await) else c
            if not isinstance(c, ast.Call):
                continue
            hit = False
            t = _deleted_path_expr(c)
            if t is not None:
                hit = lvalue(f, t, dn) == table
            elif own_callee(c) is None and io_root(inline_node(c, io_objects(f))) is not None:
                # a call of an io callable - or of a method of the object one returned (`table = io.FileOffsetTable.read_for_data_file(p)`, `table.delete()`) - that is handed
                # the path: its effect on the table is decided on values; when it cannot be run: it is one of the callables that delete the table of their path parameter (and
                # nothing else) and the path is what that parameter receives
                g_ = io_callee(c, ldr)
                if any(isinstance(n_, ast.Name) and n_.id in dn for n_ in ast.walk(inline_node(c, io_objects(f)))):
                    hit = removal_by_value(f, c, dn)
                    if hit is None and g_ is not None:
                        a = bind_args(c, g_).get(_path_param(g_) or "")
                        hit = id(g_) in removers and isinstance(a, ast.Name) and a.id in dn
                    hit = bool(hit)
            elif own_callee(c) is not None and own_callee(c) is not f and depth < 3:
                h = own_callee(c)
                hit = any(isinstance(v, ast.Name) and v.id in dn and establishes(h, q, depth + 1) for q, v in bind_args(c, h).items())
            if hit:
                for n_ in g.nodes_of(st):
                    edges += [(n_.id, y, lab) for (y, lab) in g.succ[n_.id] if g.normal_edge(n_.id, y, lab)]
        return edges

    def establishes(h, q, depth=0):
        """on every normal path through h, from its entry to its return, 'no offset table of the file named by parameter q exists' is established."""
        ck = (id(h), q)
        if ck not in est_cache:
            est_cache[ck] = False  # (recursion)
            gh = cfg_of(h)
            ee = establishing_edges(h, definite(h, q), depth)
            est_cache[ck] = bool(ee) and gh.exit.id not in gh.reachable([gh.entry], avoid_edges=ee, edge_ok=gh.normal_edge)
        return est_cache[ck]

    def carried(f, e, seeds, depth=0, seen=None):
        """DATA FLOW of the path through records and own helpers (hardening round 5, benign/C14-b12: the download target travels as `DownloadTarget(path, expected_size)` from one
        extracted helper to the other). seeds: name -> access paths under which that local / parameter of f may hold the path (() - it IS the path; ("path",) / (0,) - its field
        `path` / its element 0 is). Result: the access paths under which the value of the expression e, written in f, may hold it. Followed: locals (every assignment, also by
        unpacking), tuple / list displays, constructions of the module's record classes (NamedTuple, namedtuple(..), @dataclass - a field is reachable by name and by position),
        field / constant-index selections, conditional expressions, and calls of own helpers (method of the preparator, module-level function): what any of their return statements
        may hold when the parameters receive what the arguments hold."""
        seen = set() if seen is None else seen
        if isinstance(e, ast.Name):
            out = set(seeds.get(e.id, ()))
            if (id(f), e.id) in seen:
                return out
            seen = seen | {(id(f), e.id)}
            for st in walk_body(f):
                tv = [(t, st.value) for t in st.targets] if isinstance(st, ast.Assign) else [(st.target, st.value)] if isinstance(st, (ast.AnnAssign, ast.NamedExpr)) and st.value is not None else []
                for t, v in tv:
                    if isinstance(t, ast.Name) and t.id == e.id:
                        out |= carried(f, v, seeds, depth, seen)
                    elif isinstance(t, (ast.Tuple, ast.List)) and not any(isinstance(x, ast.Starred) for x in t.elts):
                        for i, x in enumerate(t.elts):
                            if isinstance(x, ast.Name) and x.id == e.id:
                                out |= {p_[1:] for p_ in carried(f, v, seeds, depth, seen) if p_ and p_[0] == i}
            return out
        if isinstance(e, (ast.Tuple, ast.List)):
            return {(i,) + p_ for i, x in enumerate(e.elts) if not isinstance(x, ast.Starred) for p_ in carried(f, x, seeds, depth, seen)}
        if isinstance(e, ast.Attribute):
            return set() if is_self_attr(e) else {p_[1:] for p_ in carried(f, e.value, seeds, depth, seen) if p_ and p_[0] == e.attr}
        if isinstance(e, ast.Subscript):
            k_ = e.slice.value if isinstance(e.slice, ast.Constant) and isinstance(e.slice.value, (int, str)) and not isinstance(e.slice.value, bool) else None
            return set() if k_ is None else {p_[1:] for p_ in carried(f, e.value, seeds, depth, seen) if p_ and p_[0] == k_}
        if isinstance(e, ast.IfExp):
            return carried(f, e.body, seeds, depth, seen) | carried(f, e.orelse, seeds, depth, seen)
        if isinstance(e, ast.BoolOp):
            return set().union(*[carried(f, x, seeds, depth, seen) for x in e.values])
        if isinstance(e, (ast.NamedExpr, ast.Await)):
            return carried(f, e.value, seeds, depth, seen)
        if isinstance(e, ast.Call) and not any(isinstance(a, ast.Starred) for a in e.args) and not any(k_.arg is None for k_ in e.keywords):
            fields = _record_fields(ldr, e.func, tuples_only=False)
            if fields is not None:
                got = list(zip(fields, e.args)) + [(k_.arg, k_.value) for k_ in e.keywords if k_.arg in fields]
                return {(s_,) + p_ for fn_, a in got for p_ in carried(f, a, seeds, depth, seen) for s_ in (fn_, fields.index(fn_))}
            h = own_callee(e)
            if h is not None and h is not f and depth < 3:
                hs = {q: carried(f, v, seeds, depth, seen) for q, v in bind_args(e, h).items()}
                hs = {q: v for q, v in hs.items() if v}
                if hs:
                    return set().union(*[carried(h, r.value, hs, depth + 1) for r in walk_body(h) if isinstance(r, ast.Return) and r.value is not None] or [set()])
        return set()

    def as_seeds(names_):
        return names_ if isinstance(names_, dict) else {n_: {()} for n_ in names_}

    def collaborator_calls(f, names_):
        """(re)creation of a file: calls on a collaborator object (self.<attribute>.<method>: the decompressor, the downloader) that are handed the path (what one of the names - or,
        with a dict of seeds, a field of one of them - holds, by data flow: `carried`) as the place to write to."""
        seeds = as_seeds(names_)

        def queried(c):
            """the call's value decides a branch / is asserted: a question put to the collaborator, not an order."""
            p_, ch = source.parent(c), c
            while p_ is not None and not isinstance(p_, ast.stmt):
                p_, ch = source.parent(p_), p_
            return (isinstance(p_, (ast.If, ast.While)) and ch is p_.test) or isinstance(p_, ast.Assert)

        return [c for c in source.calls_in(f) if isinstance(c.func, ast.Attribute) and is_self_attr(c.func.value) and not _is_logging(c) and not queried(c)
                and any(() in carried(f, a, seeds) for a in list(c.args) + [k_.value for k_ in c.keywords] if not isinstance(a, ast.Starred))]

    _PURE = ("os.path.", "logging.", "console.", "os.stat", "os.fspath", "io.basename", "io.dirname", "io.splitext")
    _BUILTIN_PURE = {"len", "str", "repr", "format", "print", "isinstance", "bool", "type", "id", "hash"}

    def opaque_calls(f, names_, depth=0, skip=()):
        """calls in f that are handed the path (one of the names) and whose effect on the table the rule cannot tell."""
        out = []
        objs = io_objects(f)
        for c in source.calls_in(f):
            args = list(c.args) + [k_.value for k_ in c.keywords]
            # (a method of an object that an io callable built from the path - `table.delete()`, `io.Table.for_file(p).delete()` - is handed the path through that object)
            recv = inline_node(c.func.value, objs) if isinstance(c.func, ast.Attribute) and not is_self_attr(c.func) and isinstance(c.func.value, (ast.Name, ast.Call)) \
                and (isinstance(c.func.value, ast.Call) or c.func.value.id in objs) else None
            if recv is not None and not any(c is s_ for s_ in skip) and io_root(recv) is not None and any(isinstance(n_, ast.Name) and n_.id in names_ for n_ in ast.walk(recv)):
                if removal_by_value(f, c, names_) is None:
                    out.append(c)
                continue
            if any(c is s_ for s_ in skip) or not any(isinstance(n_, ast.Name) and n_.id in names_ for a in args for n_ in ast.walk(a)):
                continue
            d = dotted(c.func) or ""
            if _deleted_path_expr(c) is not None or isinstance(source.enclosing_stmt(c), ast.Raise) or _is_logging(c) or d.startswith(_PURE) or d in _BUILTIN_PURE:
                continue
            if isinstance(c.func, ast.Attribute) and isinstance(c.func.value, ast.Name) and c.func.value.id in names_ and c.func.attr in _METHODS:
                continue  # a string method of the path itself
            if source.enclosing(c, ast.Raise) is not None or _last(c.func) in ("Path", "PurePath"):
                continue
            if _record_fields(ldr, c.func, tuples_only=False) is not None:
                continue  # the construction of a record of the module (NamedTuple / namedtuple / @dataclass without an own __init__): it carries the path, it does nothing to files
            g_ = io_callee(c, ldr)
            if g_ is not None:
                # understood, whether or not it removes the table: the preparer; an io callable that deletes nothing; one whose deletions are all evaluated for the path it is
                # handed; one that the rule can run in its file system
                if g_ is prep or not _may_delete(io_, g_) or (_path_param(g_) is not None and None not in _removed_files(io_, g_)) or removal_by_value(f, c, names_) is not None:
                    continue
                out.append(c)
                continue
            h = own_callee(c)
            if h is not None:
                if depth < 2 and h is not f:
                    for q, v in bind_args(c, h).items():
                        if any(isinstance(n_, ast.Name) and n_.id in names_ for n_ in ast.walk(v)):
                            if not isinstance(v, ast.Name) and establishes(h, q, depth + 1):
                                # the helper removes the table of the file its parameter names, and what it is handed is computed from the path (`target.path`, a joined
                                # name): WHICH file's table goes is not told by the names - not understood, not 'no removal'
                                out.append(c)
                            out += opaque_calls(h, {q}, depth + 1)
                continue
            if any(c is k_ for k_ in collaborator_calls(f, names_)):
                continue
            out.append(c)
        return out

    # own helpers (methods / module-level functions) that prepare the table of their path parameter
    preparers = {}
    for m in list(meths.values()) + list(mod_funcs.values()):
        for c in source.calls_in(m):
            if io_callee(c, ldr) is prep and c.args and isinstance(c.args[0], ast.Name) and c.args[0].id in _own_params(m):
                preparers[id(m)] = c.args[0].id
    n_sites = 0
    for m in meths.values():
        if id(m) in preparers:
            continue
        # role: the document path of this method is what it hands to the table preparation
        psites = {}
        for c in source.calls_in(m):
            a = None
            h = own_callee(c)
            if h is not None and id(h) in preparers:
                a = bind_args(c, h).get(preparers[id(h)])
            elif io_callee(c, ldr) is prep and c.args:
                a = c.args[0]
            if a is not None:
                if not isinstance(a, ast.Name):
                    raise AnchorMissing(f"{m.name}: the path handed to the offset-table preparation is not a plain local ({u(a)})")
                psites.setdefault(a.id, []).append(c)
        g = cfg_of(m) if psites else None
        for x, pcs in psites.items():
            alias = may_alias(m, x)
            dn = definite(m, x)
            # (re)creation of the file: a call on a collaborator object (self.<attribute>.<method>: the decompressor, the downloader) that is handed the path as the place to write to
            creators = [(c, f"{c.func.value.attr}.{c.func.attr}") for c in collaborator_calls(m, alias | dn)]
            helper_opaque: dict = {}
            # ... also when the (re)creation was extracted into an own helper that is handed the path: the call of the helper is the creating statement, unless the helper
            # itself removes the table after every (re)creation it performs
            for c in source.calls_in(m):
                h = own_callee(c)
                if h is None or id(h) in preparers or h is m:
                    continue
                b = bind_args(c, h)
                # what the helper's parameters may hold of the path, by data flow: the path itself (a plain local) or a record / tuple one of whose fields is the path - built
                # in place or returned by another own helper (`self.download_corpus_file(document_set, self.download_target(document_set, doc_path, archive_path))`)
                q_seeds = {k_: carried(m, v, as_seeds(alias | dn)) for k_, v in b.items()}
                q_seeds = {k_: v for k_, v in q_seeds.items() if v}
                q_alias = list(q_seeds)
                q_doc = [k_ for k_, v in b.items() if isinstance(v, ast.Name) and v.id in dn]
                inner = collaborator_calls(h, q_seeds)
                if not inner:
                    continue
                gh = cfg_of(h)
                inner_q = {a.id for ic in inner for a in list(ic.args) + [k_.value for k_ in ic.keywords] if isinstance(a, ast.Name) and a.id in q_alias}
                hee = establishing_edges(h, {n_ for q in set(q_doc) | inner_q for n_ in definite(h, q)}, 1)
                if hee and all(gh.exit.id not in gh.reachable([gh.node_of(ic)], avoid_edges=hee, edge_ok=gh.normal_edge) for ic in inner):
                    n_sites += 1
                    chk.ob("O3.10", f"{m.name}: `{h.name}(..)` (re)creates the document file -> an existing offset table of it is removed before the table is prepared", True, c,
                           f"`{h.name}` removes the table after every (re)creation it performs", key=f"{_L}:{DP.name}.{m.name}:{h.name}:stale-offset-table")
                else:
                    creators.append((c, f"{h.name}:{inner[0].func.value.attr}.{inner[0].func.attr}"))
                    helper_opaque[id(c)] = opaque_calls(h, set(q_alias), 1, skip=inner)
            pn = [g.node_of(c) for c in pcs]
            for c, what in creators:
                n_sites += 1
                cn = g.node_of(c)
                # the table in question is the one of the file this statement writes: the document path, or the local it was handed as the place to write to (`target_path`, which
                # is the document path in one arm and the archive in the other - whichever it is, the table of THAT file is what has to go)
                handed = {a.id for a in list(c.args) + [k_.value for k_ in c.keywords] if isinstance(a, ast.Name) and a.id in alias}
                ee = establishing_edges(m, dn | {n_ for a in handed for n_ in definite(m, a)})
                after = bool(ee) and not any(p_.id in g.reachable([cn], avoid_edges=ee, edge_ok=g.normal_edge) for p_ in pn)
                before = bool(ee) and cn.id not in g.reachable([g.entry], avoid_edges=ee) and not any(cn.id in g.reachable([p_], avoid_edges=ee) for p_ in pn)
                if not (after or before):
                    unknown_effect = opaque_calls(m, alias | dn, skip=[k_ for k_, _ in creators] + list(pcs)) + helper_opaque.get(id(c), [])
                    if unknown_effect:
                        # not every statement that is handed the path is understood: the removal may be what one of them does - not recognised, not a finding
                        chk.unknown("O3.10", f"{m.name}: no removal of the offset table is recognised between `{what}(..)` and the table preparation, but `{short(unknown_effect[0], 70)}` "
                                             f"is handed the path and its effect on the table is not known", c)
                        continue
                chk.ob("O3.10", f"{m.name}: `{what}(..)` (re)creates the document file -> an existing offset table of it is removed before the table is prepared", after or before, c,
                       "" if after or before else f"a path from `{short(c, 70)}` reaches the table preparation with the predecessor's table in place",
                       key=f"{_L}:{DP.name}.{m.name}:{what}:stale-offset-table")
    if n_sites == 0:
        raise AnchorMissing("DocumentSetPreparator: no statement that (re)creates a document file was located")


# ---- O3.11 the skipper's contract on values (seed m15) ---------------------------------------------------------------------------------------------------------------------
# `_Sim` above takes io.skip_lines as a CONTRACT (its stand-in moves the source n lines ahead). This rule decides the contract itself: skip_lines is run by the evaluator on a
# byte-positioned stand-in of the data file (lines of different byte lengths, multi-byte content) in a file system the rule controls, with an offset table that the table
# class's own writer wrote (entries at a stride the rule chooses - what a table holds is O3.7's business, how the skipper uses it is this rule's).

_SKIP_LINES = [("{\"n\": %d, \"t\": \"%s\"}\n" % (i, "é中"[i % 2] * (i % 4))).encode("utf-8") for i in range(12)]
_SKIP_STRIDE = 3
_SKIP_CASES = [("without an offset table", False, (1, 5, 12)), ("nothing to skip", True, (0,)), ("first line before the first table entry", True, (1, 2)),
               ("first line exactly on a table entry", True, (3, 6, 9)), ("first line between two table entries", True, (4, 5, 8)), ("first line behind the last table entry", True, (10, 11, 12))]


class _ByteFile:
    """stand-in for an opened data file (what MmapSource / open(.., 'rb') offer): a byte position, seek / tell / readline / readlines."""

    def __init__(self, lines):
        self.data, self.pos, self.calls = b"".join(lines), 0, []
        self.obj = _Obj(None, None, {"seek": _stub(self.seek), "tell": _stub(lambda: self.pos), "readline": _stub(self.readline), "readlines": _stub(self.readlines),
                                     "close": _stub(lambda: None)}, "data file")

    def seek(self, off, whence=0):
        if not isinstance(off, int) or isinstance(off, bool) or whence != 0 or off < 0:
            raise _Raised("ValueError", f"seek({off!r}, {whence!r})")
        self.calls.append(("seek", off))
        self.pos = min(off, len(self.data))
        return self.pos

    def readline(self, *a):
        if a:
            raise _Cannot("readline(<size>) on the stand-in data file")
        end = self.data.find(b"\n", self.pos)
        end = len(self.data) if end < 0 else end + 1
        out, self.pos = self.data[self.pos:end], end
        self.calls.append(("readline", len(out)))
        return out

    def readlines(self, n=None):
        if n is not None and (not isinstance(n, int) or isinstance(n, bool)):
            raise _Raised("TypeError", f"readlines({n!r})")
        out = []
        while self.pos < len(self.data) and (n is None or len(out) < n):
            out.append(self.readline())
        return out


class _TextFiles:
    """the rule's file system for small text files (the offset table): open() for writing / reading, print(.., file=) and write(), iteration line by line, existence tests."""

    def __init__(self, existing=()):
        self.text: dict = {}
        self.existing = set(existing)
        self.handles: dict = {}

    def exists(self, p):
        if not isinstance(p, str):
            raise _Cannot("existence test of a path without representative value")
        return p in self.text or p in self.existing

    def open(self, path, mode="r", *a, **k):
        if not isinstance(path, str) or not isinstance(mode, str):
            raise _Cannot("open() of a path / mode without representative value")
        if "b" in mode or "+" in mode:
            raise _Cannot(f"open(.., {mode!r}) in the rule's file system")
        if "w" in mode:
            self.text[path] = ""
        elif "a" in mode:
            self.text.setdefault(path, "")
        elif path not in self.text:
            raise _Raised("FileNotFoundError", path)
        st = {"path": path, "write": "w" in mode or "a" in mode, "at": 0, "open": True}

        def lines():
            return self.text[path].splitlines(keepends=True)

        def write(s):
            if not st["write"] or not st["open"] or not isinstance(s, str):
                raise _Raised("ValueError", "write() on a table file that is not open for writing")
            self.text[path] += s
            return len(s)

        def take():
            rest = lines()[st["at"]:]
            st["at"] += len(rest)
            return rest

        def readline():
            ls = lines()
            if st["at"] < len(ls):
                st["at"] += 1
                return ls[st["at"] - 1]
            return ""

        def close():
            st["open"] = False

        obj = _Obj(None, None, {"write": _stub(write), "__iter__": _stub(take), "readlines": _stub(take), "readline": _stub(readline), "close": _stub(close),
                                "read": _stub(lambda: "".join(take())), "flush": _stub(lambda: None)}, f"text file {path}")
        obj.native["__enter__"] = _stub(lambda: obj)
        obj.native["__exit__"] = _stub(lambda *a_: close() or False)
        self.handles[id(obj)] = write
        return obj

    def print(self, *args, sep=" ", end="\n", file=None, flush=False):
        if file is None:
            return None
        w = self.handles.get(id(file))
        if w is None:
            raise _Cannot("print(.., file=) to something that is not a file of the rule's file system")
        if not all(isinstance(x, (str, int, float)) for x in args):
            raise _Cannot("print() of a value without representative text")
        w(sep.join(str(x) for x in args) + end)
        return None

    def install(self, m):
        m.special["open"] = _stub(self.open)
        m.special["print"] = _stub(self.print)
        for nm in ("os.path.exists", "os.path.isfile", "os.path.lexists"):
            m.ext[nm] = _stub(self.exists)
        m.ext["os.path.getmtime"] = _stub(lambda p: 1)


def _skipper_rule(chk, io_, pr):
    chk.rule("O3.11", "skipper contract, on values: after skip_lines(path, source, n) on a source at position 0 the source stands at the first byte of line n (the next line it hands out "
             "is the client group's first one) - without an offset table, and with a table (written by the table class's own writer) whose entries lie before, exactly on and behind "
             "line n", 6,
             "a client group whose first line is exactly a line recorded in the offset table (every 50,000th line: 200,000 documents with 2 / 4 clients) reads from the start of the file "
             "(or one entry / one line off): the first slice is ingested twice, its own never - bulk sizes, pairing and the bulk budget all look right")
    # role: the skipper = the io function the parameter source hands (file name, opened source, number of lines) to
    io_path = io_.modname
    called = []
    for c in [c for f in pr.functions() for c in source.calls_in(f)]:
        d = dotted(c.func)
        if d is None or "." not in d:
            continue
        head, _, rest = d.partition(".")
        if pr.imports.get(head) == io_path and isinstance(io_.index().get(rest), source.FUNC_TYPES) and len(c.args) + len(c.keywords) == 3 \
                and len(params_of(io_.index()[rest])) == 3:
            called.append((c, io_.index()[rest]))
    sks = {id(f): f for _, f in called if any(isinstance(x, ast.Attribute) and x.attr in ("seek", "readline") for x in ast.walk(f))}
    if len(sks) != 1:
        raise AnchorMissing(f"{_I}: the function the bulk parameter source calls to forward an opened file source by a number of lines (skip_lines)")
    sk = next(iter(sks.values()))
    call = next(c for c, f in called if f is sk)
    if call.keywords or any(isinstance(a, ast.Starred) for a in call.args):
        raise AnchorMissing(f"{_P}: the arguments of the call of io.{sk.name} (file name, source, number of lines) are not positional")
    FT = io_.index().get("FileOffsetTable")
    if not isinstance(FT, ast.ClassDef):
        raise AnchorMissing(f"{_I}: the offset table class (FileOffsetTable) is not located")
    path = _SAMPLE
    offs = [sum(len(x) for x in _SKIP_LINES[:n]) for n in range(len(_SKIP_LINES) + 1)]  # offs[n]: the byte at which line n (0-based) starts == tell() after n lines
    entries = [(n, offs[n]) for n in range(_SKIP_STRIDE, len(_SKIP_LINES), _SKIP_STRIDE)]

    def machine(fsys):
        m = _M(io_, None, None, None, budget=60000)
        m.strict_effects = True
        fsys.install(m)
        return m

    def written_table():
        """{path: text} of the table files the class's own writer produces for `entries`: the factory whose object opens its file for writing, entered, handed every entry."""
        for fac in [f for f in io_.methods(FT).values() if any(_last(d) == "classmethod" for d in f.decorator_list) and len(_own_params(f)) == 1]:
            fsys = _TextFiles({path})
            m = machine(fsys)
            try:
                t = m.apply(m.getattr(_Cls(FT), fac.name), [path], {})
                if not isinstance(t, _Obj) or t.cls is None:
                    continue
                m.apply(m.getattr(t, "__enter__"), [], {})
                if not fsys.text:
                    continue  # (this factory's object reads)
                adders = [f for f in io_.methods(FT).values() if len(_own_params(f)) == 2 and not any(_last(d) in ("classmethod", "staticmethod") for d in f.decorator_list)
                          and f.name != "__init__" and not any(isinstance(x, ast.Return) and x.value is not None for x in walk_body(f))]
                if len(adders) != 1:
                    raise _Cannot("the table's method that records one (line number, offset) pair")
                for n, o in entries:
                    m.apply(m.getattr(t, adders[0].name), [n, o], {})
                m.apply(m.getattr(t, "__exit__"), [None, None, None], {})
                return dict(fsys.text)
            except _Raised as x:
                raise _Cannot(f"the table's writer raises {x}")
        raise _Cannot("no factory of the table class yields an object that opens its file for writing")

    try:
        table = written_table()
    except _Cannot as x:
        chk.unknown("O3.11", f"FileOffsetTable: a table cannot be written through the class's own writer in the rule's file system: {x}", FT)
        return
    if not table or not all(v.strip() for v in table.values()):
        chk.unknown("O3.11", f"FileOffsetTable: the writer leaves no entries in the rule's file system (files: {sorted(table)})", FT)
        return
    for label, with_table, targets in _SKIP_CASES:
        wrong, cannot = [], None
        for n in targets:
            fsys = _TextFiles({path})
            if with_table:
                fsys.text.update(table)
            bf = _ByteFile(_SKIP_LINES)
            m = machine(fsys)
            try:
                m.apply(_FnDef(sk), [path, bf.obj, n], {})
            except _Raised as x:
                wrong.append(f"skipping {n} line(s) raises {x}")
                continue
            except _Cannot as x:
                cannot = f"skipping {n} line(s): {x}"
                break
            if bf.pos != offs[n]:
                at = [k for k, o in enumerate(offs) if o == bf.pos]
                wrong.append(f"after skipping {n} line(s) the source stands at byte {bf.pos} ({'the start of line ' + str(at[0]) if at else 'inside a line'}), line {n} starts at byte {offs[n]} "
                             f"[calls on the source: {', '.join(f'{a}({b})' if a == 'seek' else a for a, b in bf.calls[:4]) or 'none'}{' ...' if len(bf.calls) > 4 else ''}]")
        if cannot is not None and not wrong:
            chk.unknown("O3.11", f"io.{sk.name} cannot be evaluated ({label}): {cannot}", sk)
            continue
        chk.ob("O3.11", f"{label}: the source stands at the group's first line", not wrong, sk,
               "; ".join(wrong[:2]) if wrong else f"skipping {', '.join(map(str, targets))} of {len(_SKIP_LINES)} lines" + (f", table entries {entries}" if with_table else ""),
               key=f"{_I}:{sk.name}:position:{label}")


# ---- O3.13 the file source's contract on values (seed m17) --------------------------------------------------------------------------------------------------------------------
# `_FakeFile` is the stand-in of the value runs for the file source the slice reader opens; what it assumes about the real class ("readlines(n) hands out the next min(n, remaining)
# lines") is decided here: the class is instantiated and opened by the evaluator over a byte file of the rule (open() / mmap.mmap() are stand-ins), then read to its end.

_SRC_CHUNKS = (1, 5, 12, 50)


class _LineFile:
    """stand-in for what open(path, mode) / mmap.mmap(fileno, ..) return over the rule's data: byte (or, in a text mode, str) content with a position; readline / readlines / read /
    seek / tell / iteration."""

    def __init__(self, data):
        self.data, self.pos, self.closed = data, 0, False
        self.nl = "\n" if isinstance(data, str) else b"\n"
        self.obj = _Obj(None, None, {"seek": _stub(self.seek), "tell": _stub(lambda: self.pos), "readline": _stub(self.readline), "readlines": _stub(self.readlines), "read": _stub(self.read),
                                     "close": _stub(self.close), "fileno": _stub(lambda: 3), "madvise": _stub(lambda *a, **k: None), "flush": _stub(lambda: None),
                                     "size": _stub(lambda: len(self.data)), "__iter__": _stub(lambda: self.readlines()), "__len__": _stub(lambda: len(self.data))}, "opened data file")
        self.obj.native["__enter__"] = _stub(lambda: self.obj)
        self.obj.native["__exit__"] = _stub(lambda *a: self.close() or False)

    def close(self):
        self.closed = True

    def seek(self, off, whence=0):
        if not isinstance(off, int) or isinstance(off, bool) or whence != 0 or off < 0:
            raise _Raised("ValueError", f"seek({off!r}, {whence!r})")
        self.pos = min(off, len(self.data))
        return self.pos

    def readline(self, *a):
        if a and a[0] not in (-1, None):
            raise _Cannot("readline(<size>) on the stand-in data file")
        end = self.data.find(self.nl, self.pos)
        end = len(self.data) if end < 0 else end + 1
        out, self.pos = self.data[self.pos:end], end
        return out

    def readlines(self, *a):
        if a and a[0] not in (-1, None):
            raise _Cannot("readlines(<size hint>) on the stand-in data file")
        out = []
        while self.pos < len(self.data):
            out.append(self.readline())
        return out

    def read(self, *a):
        if a and a[0] not in (-1, None):
            raise _Cannot("read(<size>) on the stand-in data file")
        out, self.pos = self.data[self.pos:], len(self.data)
        return out


def _file_source_rule(chk, io_, pr):
    chk.rule("O3.13", "file source contract, on values (what the stand-in file source of the value runs assumes): the class the parameter source hands to its slice reader, opened over a "
             "data file of the rule and read with readlines(n) until nothing comes back, hands out every line of the file exactly once, in order and byte for byte, min(n, remaining) "
             "lines per call and [] at the end - for files that end with a newline and for files whose last document is not terminated by one", 3,
             "a corpus file whose last line has no trailing newline (hand-made / joined corpora): the last document (counted by corpus preparation, assigned to the last client group) is "
             "never ingested; with action lines its action line is sent without a document")
    # role: the file source = a class of the io module (it offers open() and readlines(n)) that the parameter source's module hands on as a value (`Slice(io.MmapSource, ..)`)
    io_path = io_.modname
    roles: dict = {}
    for f in pr.functions():
        for c in source.calls_in(f):
            for a in list(c.args) + [k.value for k in c.keywords]:
                d = dotted(a)
                if d is None or "." not in d:
                    continue
                head, _, rest = d.partition(".")
                cls = io_.index().get(rest)
                if pr.imports.get(head) == io_path and isinstance(cls, ast.ClassDef):
                    ms = io_.methods(cls)
                    if "open" in ms and "readlines" in ms and len(_own_params(ms["readlines"])) == 1:
                        roles.setdefault(cls.name, (cls, c))
    if not roles:
        raise AnchorMissing(f"{_P}: no class of {_I} with open() and readlines(n) is handed to a reader of the bulk parameter source (Slice(io.MmapSource, ..))")
    lines = list(_SKIP_LINES)
    worlds = [("the file ends with a newline", lines), ("the last document is not terminated by a newline", lines[:-1] + [lines[-1].rstrip(b"\n")]),
              ("a single document without a newline", [lines[3].rstrip(b"\n")])]
    for cname, (cls, call) in sorted(roles.items()):
        init = io_.methods(cls).get("__init__")
        npar = len(_own_params(init)) if init is not None else 0
        for label, content in worlds:
            wrong, cannot = [], None
            for chunk in _SRC_CHUNKS:
                opened: list = []

                def open_(path=None, mode="r", *a, _o=opened, **k):
                    mode = k.get("mode", mode)
                    if not isinstance(mode, str) or any(ch in mode for ch in "wax+"):
                        raise _Cannot(f"open(.., {mode!r}) of the data file")
                    data = b"".join(content)
                    lf = _LineFile(data if "b" in mode else data.decode("utf-8"))
                    _o.append(lf)
                    return lf.obj

                def mmap_(*a, _o=opened, **k):
                    lf = _LineFile(b"".join(content))
                    _o.append(lf)
                    return lf.obj

                m = _M(io_, None, None, {"mmap.mmap": _stub(mmap_), "mmap.ACCESS_READ": 1, "mmap.MADV_SEQUENTIAL": 2, "mmap.PROT_READ": 1, "mmap.MAP_SHARED": 1, "mmap.MAP_PRIVATE": 2,
                                         "os.path.getsize": _stub(lambda p_: len(b"".join(content))), "os.open": _stub(lambda *a, **k: 3), "os.close": _stub(lambda *a: None),
                                         "os.O_RDONLY": 0}, budget=60000)
                m.special["open"] = _stub(open_)
                try:
                    if npar < 1:
                        raise _Cannot(f"{cname}() takes no file name")
                    src = m.apply(_Cls(cls), [_SAMPLE, "rt"][:max(1, min(npar, 2))], {})
                    m.apply(m.getattr(src, "open"), [], {})
                    if not opened:
                        raise _Cannot(f"{cname}.open() does not open the data file through open() / mmap.mmap()")
                    got, calls = [], []
                    for _ in range(len(content) + 3):
                        r = m.apply(m.getattr(src, "readlines"), [chunk], {})
                        if not isinstance(r, (list, tuple)) or not all(isinstance(x, (bytes, str)) for x in r):
                            raise _Cannot(f"readlines({chunk}) hands out a {type(r).__name__}")
                        calls.append(len(r))
                        got += [x.encode("utf-8") if isinstance(x, str) else x for x in r]
                        if not r:
                            break
                    want_calls = [min(chunk, len(content) - i) for i in range(0, len(content), chunk)] + [0]
                    if got != content:
                        lost = [i for i, x in enumerate(content) if x not in got]
                        wrong.append(f"readlines({chunk}) until nothing comes back hands out {len(got)} of the {len(content)} lines" + (f" (line {lost[0]} = {content[lost[0]]!r} is never handed out)" if lost else
                                                                                                                                    " (not the file's lines in order)"))
                    elif calls != want_calls:
                        wrong.append(f"readlines({chunk}) hands out {calls} lines per call, min(n, remaining) is {want_calls}")
                except _Raised as x:
                    wrong.append(f"readlines({chunk}) on the opened source raises {x}")
                except _Cannot as x:
                    cannot = f"readlines({chunk}): {x}"
                    break
            if cannot is not None and not wrong:
                chk.unknown("O3.13", f"io.{cname} cannot be evaluated over the rule's data file ({label}): {cannot}", cls)
                continue
            chk.ob("O3.13", f"io.{cname} ({label}): every line is handed out exactly once, min(n, remaining) per call", not wrong, io_.methods(cls)["readlines"],
                   "; ".join(wrong[:2]) if wrong else f"{len(content)} line(s) read in chunks of {', '.join(map(str, _SRC_CHUNKS))}", key=f"{_I}:{cname}.readlines:contract:{label}")


# ---- O3.12 one parameter source per task and worker (seed m13) -------------------------------------------------------------------------------------------------------------
# `_Sim` drives ONE parameter source per worker and task through the driver's contract. This rule decides that the load generator honours that contract: the loop that turns a
# worker's client allocations into schedules is run by the evaluator on model allocations; the parameter sources are stand-ins that record who asked for them and who registered.

_D = "esrally/driver/driver.py"


class _TolerantM(_M):
    """the driver's machine for O3.12: what cannot be evaluated (event loop, ES clients, logging, schedulers) is skipped - the rule observes only the calls that reach its stand-ins
    (creation of a parameter source, partition()); every skipped expression that was handed a mutable object of the evaluated world is remembered (`skipped`, with whether it was handed a dict as a whole)."""

    def __init__(self, *a, **k):
        super().__init__(*a, **k)
        self.skipped: list = []

    def touches_mutable(self, e, env) -> bool:
        if _M.touches_mutable(self, e, env) and not _is_logging(e):
            # (handed a dict as a whole - receiver or argument: possibly the table of parameter sources itself; an element read from it is not)
            whole = any(isinstance(self.peek(c, env), dict) for n in ast.walk(e) if isinstance(n, ast.Call)
                        for c in list(n.args) + [k.value for k in n.keywords] + ([n.func.value] if isinstance(n.func, ast.Attribute) else []))
            self.skipped.append((e, whole))
        return False


def _source_per_task_rule(chk, drv):
    chk.rule("O3.12", "in a worker every task gets its OWN parameter source and the co-located clients of one task share it: the load generator's allocation loop, run on model "
             "allocations (two tasks of a parallel element that reference the same operation, a third task with its own; one worker for all clients, a worker hosting the last client "
             "of one task and the first of the other), creates a source per task and calls partition(index in task, clients of the task) once per allocation on the source created "
             "for exactly that allocation's task", 3,
             "two bulk tasks of a parallel element that use the same operation share one partitioned source when clients of both live in one worker: together they drain the corpus "
             "once (each task ingests about half of it), a worker hosting clients {n-1, 0} reads the whole corpus - documents missing and duplicated per task")
    AD = drv.index().get("AsyncIoAdapter")
    run_ = drv.methods(AD).get("run") if isinstance(AD, ast.ClassDef) else None
    init = drv.methods(AD).get("__init__") if isinstance(AD, ast.ClassDef) else None
    TA = drv.index().get("TaskAllocation")
    if run_ is None or init is None or not isinstance(TA, ast.ClassDef):
        raise AnchorMissing(f"{_D}: the load generator's adapter (AsyncIoAdapter.__init__ / run) and the allocation record (TaskAllocation)")
    creators = sorted({k for k, v in drv.imports.items() if v in ("esrally.track", "esrally.track.loader", "esrally.track.operation_parameters", "esrally.track.loader.operation_parameters")})
    if not creators:
        raise AnchorMissing(f"{_D}: the import through which the parameter source of a task is created (track.operation_parameters)")

    op_shared = _Obj(None, {"name": "bulk", "type": "bulk", "params": {}, "param_source": None, "meta_data": {}}, None, "operation bulk")
    op_other = _Obj(None, {"name": "bulk-other", "type": "bulk", "params": {}, "param_source": None, "meta_data": {}}, None, "operation bulk-other")
    op_shared.frozen = op_other.frozen = True

    def task(name, op, clients):
        t = _Obj(None, {"name": name, "operation": op, "clients": clients, "warmup_time_period": None, "time_period": None, "warmup_iterations": None, "iterations": None,
                        "ramp_up_time_period": None, "schedule": "deterministic", "params": {}, "tags": [], "meta_data": {}, "completes_parent": False, "any_completes_parent": False,
                        "target_throughput": None, "ignore_response_error_level": None}, {"error_behavior": _stub(lambda *a, **k: "continue")}, f"task {name}")
        return t

    tasks = {"A": task("index-a", op_shared, 3), "B": task("index-b", op_shared, 3), "C": task("index-c", op_other, 2)}
    # (global client id, task, index in task) of the whole parallel element; a layout is the subset one worker hosts
    everyone = [(0, "A", 0), (1, "A", 1), (2, "A", 2), (3, "B", 0), (4, "B", 1), (5, "B", 2), (6, "C", 0), (7, "C", 1)]
    layouts = [("one worker hosts all clients", everyone), ("a worker hosts the last client of one task and the first of the other", [everyone[2], everyone[3], everyone[6]]),
               ("a worker hosts clients of one task only", everyone[:2])]
    ta_params = _own_params(drv.methods(TA).get("__init__")) if drv.methods(TA).get("__init__") is not None else None
    init_params = _own_params(init)

    def evaluate(hosted):
        """[(allocation (task key, index), source the allocation registered with, arguments of partition())], {id(source): task key it was created for}, skipped expressions."""
        created: dict = {}
        sources: list = []
        registered: list = []
        current = [None]

        def make_source(*a, **k):
            ts = [x for x in list(a) + list(k.values()) if isinstance(x, _Obj) and any(x is t for t in tasks.values())]
            if len(ts) != 1:
                raise _Cannot("the creation of a parameter source is not handed exactly one task")
            key = next(kk for kk, t in tasks.items() if t is ts[0])
            src = _Obj(None, {"infinite": False, "percent_completed": None, "task_progress": None}, None, f"parameter source #{len(sources)} (created for task {key})")

            def partition(*pa, **pk):
                registered.append((current[0], src, tuple(pa) + tuple(pk.values())))
                return _Obj(None, {"infinite": False, "percent_completed": None, "task_progress": None}, {"params": _stub(lambda: {}), "size": _stub(lambda: 1)}, f"partition of #{sources.index(src)}")

            src.native["partition"] = _stub(partition)
            sources.append(src)
            created[id(src)] = key
            return src

        ext = {}
        for al in creators:
            path_ = drv.imports[al]
            ext[path_ if path_.endswith("operation_parameters") else f"{path_}.operation_parameters"] = _stub(make_source)
        m = _TolerantM(drv, None, None, ext, budget=400000)
        cfg = _Obj(None, None, {"opts": _stub(lambda *a, **k: k.get("default_value", False))}, "config")
        allocs = []
        for gid, tk, idx in hosted:
            vals = {"task": tasks[tk], "client_index_in_task": idx, "global_client_index": gid, "total_clients": len(everyone)}
            # (a hand-written constructor or a record class: the four fields are the allocator's contract, bound by name)
            if ta_params is not None and set(ta_params) != set(vals):
                raise _Cannot(f"TaskAllocation.__init__ takes {ta_params}")
            try:
                ta = m.apply(_Cls(TA), [], dict(vals))
            except _Raised as x:
                raise _Cannot(f"TaskAllocation(task=, client_index_in_task=, global_client_index=, total_clients=) raises {x}")
            if not isinstance(ta, _Obj):
                raise _Cannot("TaskAllocation(..) does not yield an object of the evaluated world")
            ta.c03_key = (tk, idx)
            allocs.append((gid, ta))
        known = {"cfg": cfg, "track": _Obj(None, {"name": "model", "corpora": []}, None, "track"), "task_allocations": allocs, "sampler": _Obj(None, None, None, "sampler"),
                 "cancel": _Obj(None, None, {"is_set": _stub(lambda: False)}, "cancel"), "complete": _Obj(None, None, {"is_set": _stub(lambda: False)}, "complete"),
                 "abort_on_error": False, "client_contexts": {}, "worker_id": 0}
        if not set(init_params) <= set(known) or "task_allocations" not in init_params:
            raise _Cannot(f"AsyncIoAdapter.__init__ takes {init_params}")
        adapter = m.apply(_Cls(AD), [], {k: v for k, v in known.items() if k in init_params})

        # which allocation is being served when a source is asked to partition: the one the code took last from its list of allocations
        # the allocations are consumed in order: wrap them so that taking the next pair tells the rule whose turn it is
        def gen():
            for pair in allocs:
                current[0] = pair[1]
                yield pair

        holder = [k for k, v in adapter.attrs.items() if v is allocs]
        if len(holder) != 1:
            raise _Cannot("the attribute of the adapter that holds the client allocations")
        adapter.attrs[holder[0]] = _Obj(None, None, {"__iter__": _stub(gen), "__len__": _stub(lambda: len(allocs))}, "client allocations of this worker")
        env = {params_of(run_)[0]: adapter, "__fn__": run_, "__class__": AD, "__self__": adapter}
        try:
            m.exec(run_.body, env)
        except _Raised as x:
            raise _Cannot(f"the allocation loop raises {x}")
        return registered, created, list(m.skipped)

    results = []
    for label, hosted in layouts:
        try:
            results.append((label, hosted) + evaluate(hosted))
        except _Cannot as x:
            chk.unknown("O3.12", f"AsyncIoAdapter.run cannot be evaluated on model allocations ({label}): {x}", run_)
            return
    # located first: every allocation registered (else the shape is not recognised), judged second
    for label, hosted, registered, created, skipped in results:
        seen = [getattr(a, "c03_key", None) for a, _, _ in registered]
        if sorted(seen, key=str) != sorted([(tk, idx) for _, tk, idx in hosted], key=str):
            chk.unknown("O3.12", f"AsyncIoAdapter.run ({label}): the evaluated loop does not register every hosted allocation exactly once with a parameter source (registered: {seen})", run_)
            return
    foreign, split, args_wrong = [], [], []
    relevant_skips = []
    for label, hosted, registered, created, skipped in results:
        by_task: dict = {}
        for a, src, pa in registered:
            tk, idx = a.c03_key
            if created[id(src)] != tk:
                foreign.append(f"{label}: client {idx} of task {tasks[tk].attrs['name']} registers with the {src.label}")
            by_task.setdefault(tk, []).append(src)
            if tuple(pa) != (idx, tasks[tk].attrs["clients"]):
                args_wrong.append(f"{label}: client {idx} of {tasks[tk].attrs['clients']} of task {tasks[tk].attrs['name']} registers as partition{tuple(pa)!r}")
        for tk, srcs in by_task.items():
            if any(s is not srcs[0] for s in srcs):
                split.append(f"{label}: the {len(srcs)} co-located clients of task {tasks[tk].attrs['name']} register with {len({id(s) for s in srcs})} different sources")
        relevant_skips += [short(e, 60) for e, whole_dict in skipped if whole_dict]
    chk.ob("O3.12", "no two tasks share a parameter source (tasks that reference the same operation included)", not foreign, run_, "; ".join(foreign[:2]), key=f"{_D}:AsyncIoAdapter.run:source-per-task")
    if split and relevant_skips:
        chk.unknown("O3.12", f"AsyncIoAdapter.run: whether co-located clients of a task share their source is not decided - not evaluated: {relevant_skips[:2]}", run_)
    else:
        chk.ob("O3.12", "the co-located clients of one task register with ONE source (the group's bulk budget and reader chain)", not split, run_, "; ".join(split[:2]), key=f"{_D}:AsyncIoAdapter.run:source-shared-in-task")
    chk.ob("O3.12", "every allocation registers as (its index in the task, the task's clients)", not args_wrong, run_, "; ".join(args_wrong[:2]), key=f"{_D}:AsyncIoAdapter.run:partition-arguments")


# ---- the bulk pipeline on values ------------------------------------------------------------------------------------------------------------------------------------
# The clauses of C03 are statements about what the param source hands to the runner. They are decided END TO END on a small corpus model: the analysed classes are instantiated
# and driven through the contract the driver uses (ParamSource(track, params) -> partition(client, clients) -> params() until StopIteration) by the evaluator above; the files are
# stand-ins that hand out numbered lines and record what was read. Names the model relies on are contracts, not implementation details: the user-facing settings ("bulk-size",
# "batch-size", "ingest-percentage", "conflicts", ...), the runner's keys ("body", "bulk-size"), the track model's attributes (number_of_documents, includes_action_and_meta_data,
# document_file, target_index, ...) and io's file source (open / readlines / close, skip_lines). Everything between them - helper functions, loops vs comprehensions, attribute,
# parameter and local names, the order of statements - is free to change.

_FILES = {"A": [("A1", 10, False), ("A2", 7, True)], "B": [("B1", 5, False)], "C": [("C1", 2, False)]}
_FILES_PLAIN = {"A": [("A1", 25, False)], "B": [("B1", 8, False)]}


def _stub(fn):
    """a stand-in of the rule for a collaborator's function: called as it is by the evaluator (unknown arguments are passed on as they are)."""

    def w(*a, **k):
        return fn(*a, **k)

    w._machine = w._opaque_ok = True
    return w


class _FakeFile:
    """stand-in for io's file source over numbered lines: readlines(n) hands out the next (at most n) lines."""

    def __init__(self, sim, path):
        self.sim, self.path, self.pos, self.open_, self.handed = sim, path, 0, False, []
        self.lines = sim.lines[path]
        self.obj = _Obj(None, None, {"open": _stub(self.open), "readlines": _stub(self.readlines), "readline": _stub(self.readline), "close": _stub(self.close), "seek": _stub(self.seek),
                                     "__enter__": _stub(self.open), "__exit__": _stub(lambda *a: self.close() or False)}, f"file source {path}")
        sim.fakes[id(self.obj)] = self

    def open(self):
        self.open_ = True
        return self.obj

    def close(self):
        self.open_ = False

    def seek(self, off):
        if off != 0:
            raise _Cannot("seek() to a byte offset in the stand-in file")
        self.pos = 0

    def readlines(self, n):
        if not self.open_ or not isinstance(n, int) or isinstance(n, bool):
            raise _Raised("ValueError", f"readlines({n!r}) on a {'open' if self.open_ else 'closed'} source")
        if self.sim.fault is not None and self.sim.fault[0] == self.path:
            self.sim.reads_of_faulty += 1
            if self.sim.reads_of_faulty == self.sim.fault[1]:
                self.sim.faults_raised += 1
                raise _Raised("OSError", f"[Errno 5] Input/output error: '{self.path}' (the rule's fault in read {self.sim.fault[1]} of this file)")
        out = self.lines[self.pos:self.pos + max(n, 0)]
        self.handed.append((self.pos, len(out)))
        self.pos += len(out)
        return list(out)

    def readline(self):
        out = self.readlines(1)
        return out[0] if out else b""

    def skip(self, n):
        if not isinstance(n, int) or n < 0:
            raise _Raised("ValueError", f"skip_lines({n!r})")
        self.pos = min(self.pos + n, len(self.lines))


class _Sim:
    def __init__(self, pr, source_cls, files):
        self.pr, self.source_cls, self.files = pr, source_cls, files
        self.lines, self.meta, self.fakes = {}, {}, {}
        self.fault, self.reads_of_faulty, self.faults_raised = None, 0, 0  # fault: (path, k) - the k-th read of that file (counted per run) fails with OSError
        self.docsets = []
        for cname, sets in files.items():
            for f, n, has_meta in sets:
                path = f"/data/{f}.json"
                self.meta[f] = (path, n, has_meta)
                out = []
                for i in range(n):
                    if has_meta:
                        out.append(json.dumps({"index": {"_id": f"{f}-{i}"}}).encode() + b"\n")
                    out.append(json.dumps({"f": f, "n": i}).encode() + b"\n")
                self.lines[path] = out
        self.steps = 0

    def track(self):
        corpora = []
        for cname, sets in self.files.items():
            ds = [_Obj(None, {"number_of_documents": n, "includes_action_and_meta_data": has_meta, "document_file": f"/data/{f}.json", "document_archive": None, "target_index": f"idx-{f}",
                              "target_type": None, "target_data_stream": None, "source_format": "bulk", "is_bulk": True, "number_of_lines": n * (2 if has_meta else 1), "base_url": None,
                              "meta_data": {}, "compressed_size_in_bytes": None, "uncompressed_size_in_bytes": None},
                       {"has_compressed_corpus": _stub(lambda: False), "has_uncompressed_corpus": _stub(lambda: True)}, f"documents {f}")
                  for f, n, has_meta in sets]
            c = _Obj(None, {"name": cname, "documents": ds, "meta_data": {}}, None, f"corpus {cname}")
            c.native["filter"] = _stub(lambda *a, _c=c, **k: _c)
            c.native["number_of_documents"] = _stub(lambda *a, _n=sum(n for _, n, _m in sets), **k: _n)
            corpora.append(c)
        return _Obj(None, {"corpora": corpora, "name": "model"}, None, "track")

    def machine(self, rnd):
        ext = {"esrally.utils.io.MmapSource": _stub(lambda path, *a, **k: _FakeFile(self, path).obj), "esrally.utils.io.FileSource": _stub(lambda path, *a, **k: _FakeFile(self, path).obj),
               "esrally.utils.io.skip_lines": _stub(self.skip_lines), "random.random": _stub(rnd.random), "random.randint": _stub(rnd.randint),
               "random.expovariate": _stub(rnd.expovariate), "random.shuffle": _stub(rnd.shuffle)}
        return _M(self.pr, None, None, ext, budget=600000)

    def skip_lines(self, path, src, n):
        fk = self.fakes.get(id(src))
        if fk is None or path != fk.path:
            raise _Cannot("skip_lines() on something that is not the opened file source")
        fk.skip(n)

    def run(self, groups, clients, params, rnd=None, pulls=None, progress=None, reads=None):
        """drive one parameter source per worker (group of clients): [(group, [bulk params, ...]) per distinct partition source]. progress: a list that receives
        (group, [percent_completed after every params() call, the one ending in StopIteration included]) per source; reads: a list that receives (group, {path: number of
        lines the file sources opened for this worker handed out})."""
        out = []
        for g in groups:
            m = self.machine(rnd or _Rnd())
            self.fakes = {}
            try:
                src = m.apply(_Cls(self.source_cls), [self.track(), dict(params)], {})
                parts = []
                for c in g:
                    p = m.apply(m.getattr(src, "partition"), [c, clients], {})
                    if not any(p is q for q in parts):
                        parts.append(p)
                streams = [[] for _ in parts]
                seen = [[] for _ in parts]
                live = list(range(len(parts)))
                while live:
                    for i in list(live):
                        try:
                            streams[i].append(m.apply(m.getattr(parts[i], "params"), [], {}))
                        except _Raised as r:
                            if r.name != "StopIteration":
                                raise
                            live.remove(i)
                        if progress is not None:
                            try:
                                seen[i].append(m.getattr(parts[i], "percent_completed"))
                            except _Raised as r:
                                seen[i].append(r)
                        if pulls is not None and len(streams[i]) >= pulls and i in live:
                            live.remove(i)
                        if sum(map(len, streams)) > 2000:
                            raise _Diverges(m.steps)
                out += [(g, s) for s in streams]
                if progress is not None:
                    progress += [(g, p_) for p_ in seen]
                if reads is not None:
                    handed: dict = {}
                    for fk in self.fakes.values():
                        handed[fk.path] = handed.get(fk.path, 0) + sum(k for _, k in fk.handed)
                    reads.append((g, handed))
            finally:
                self.steps += m.steps
        return out


class _Rnd:
    """scripted stand-ins for the random module (deterministic, cover both decisions and the extremes of every draw)."""

    def __init__(self):
        self.i = self.j = self.k = 0
        self.ints = []

    def random(self):
        self.i += 1
        return (0.9, 0.1, 0.1, 0.9, 0.1, 0.9, 0.9, 0.1, 0.1, 0.1)[self.i % 10]

    def randint(self, a, b):
        self.j += 1
        self.ints.append((a, b))
        if not (isinstance(a, int) and isinstance(b, int)) or a > b:
            raise _Raised("ValueError", f"randint({a!r}, {b!r})")
        return b if self.j % 2 else a

    def expovariate(self, lambd):
        self.k += 1
        return (0.0, 0.3, 1.0, 1.7, 5.0, 0.02, 0.6)[self.k % 7]

    def shuffle(self, xs):
        xs.reverse()


def _decode(bulk, size):
    """(declared count, [(action dict, doc dict), ...]) of one emitted bulk; raises _Cannot if the shape is not what the runner contract describes."""
    if not isinstance(bulk, dict) or "body" not in bulk or "bulk-size" not in bulk:
        raise _Cannot("emitted params without 'body' / 'bulk-size'")
    body = bulk["body"]
    if isinstance(body, (list, tuple)) and all(isinstance(x, (bytes, str)) for x in body):
        body = b"".join(x if isinstance(x, bytes) else x.encode() for x in body)
    if isinstance(body, str):
        body = body.encode()
    if not isinstance(body, bytes):
        raise _Cannot(f"bulk body is a {type(body).__name__}")
    raw = body.split(b"\n")
    if raw and raw[-1] == b"":
        raw = raw[:-1]
    try:
        items = [json.loads(x) for x in raw]
    except ValueError:
        return bulk["bulk-size"], None
    return bulk["bulk-size"], items


class _Verdicts:
    """name -> list of (row label, True | False | None, detail): one row per evaluated configuration. False only when the pipeline WAS evaluated and what it emitted is wrong."""

    def __init__(self):
        self.rows: dict = {}

    def add(self, name, label, ok, detail=""):
        self.rows.setdefault(name, []).append((label, ok, detail))

    def get(self, name):
        """(verdict over all rows, first telling detail)"""
        rs = self.rows.get(name, [])
        bad = [f"{lb}: {d}" for lb, ok, d in rs if ok is False]
        if bad:
            return False, bad[0]
        unk = [f"{lb}: {d}" for lb, ok, d in rs if ok is None]
        if unk or not rs:
            return None, unk[0] if unk else "not evaluated"
        return True, f"{len(rs)} configuration(s)"


def _docs_of(items):
    return [x["doc"] if set(x) == {"doc"} and isinstance(x["doc"], dict) else x for x in items if isinstance(x, dict) and ("f" in x or set(x) == {"doc"})]


def _pipeline_verdicts(pr, source_cls):
    V_ = _Verdicts()
    sim = _Sim(pr, source_cls, _FILES)
    base = {"bulk-size": 3, "batch-size": 6}
    full: dict = {}

    def guarded_run(label, names, s_, groups, clients, params, **kw):
        try:
            return s_.run(groups, clients, params, **kw)
        except _Cannot as x:
            for n in names:
                V_.add(n, label, None, str(x))
        except _Raised as x:
            for n in names:
                V_.add(n, label, False, f"the parameter source raises {x}")
        return None

    def check_streams(label, s_, res, bulk_size, names):
        """tiling / contiguity / bound / pairing of what the groups of one partition of the clients emitted."""
        seen: dict = {}
        v = {n: (True, "") for n in names}

        def bad(n, d):
            if n in v and v[n][0] is True:
                v[n] = (False, d)

        try:
            for g, stream in res:
                order: dict = {}
                for b in stream:
                    declared, items = _decode(b, bulk_size)
                    if items is None or not all(isinstance(x, dict) for x in items):
                        bad("pair", f"clients {g}: a bulk body is not a sequence of JSON lines")
                        continue
                    docs = _docs_of(items)
                    if len(items) != 2 * len(docs) or any(("f" in _docs_of([items[i]])[0] if _docs_of([items[i]]) else False) != bool(i % 2) for i in range(len(items))):
                        bad("pair", f"clients {g}: action lines and documents do not alternate in a bulk ({[sorted(x)[0] if x else '?' for x in items][:8]})")
                    else:
                        for a, d in zip(items[0::2], items[1::2]):
                            d = _docs_of([d])[0]
                            kind = next(iter(a), None)
                            own = s_.meta.get(d.get("f"), (None, 0, False))[2]
                            if len(a) != 1 or kind not in ("index", "create", "update") or not isinstance(a[kind], dict) or \
                                    (own and a[kind].get("_id") != f"{d.get('f')}-{d.get('n')}") or (not own and a[kind].get("_index") != f"idx-{d.get('f')}"):
                                bad("pair", f"clients {g}: document {d.get('f')}#{d.get('n')} is preceded by the action line {json.dumps(a)[:80]}")
                    if declared != len(docs) or isinstance(declared, bool):
                        bad("bound", f"clients {g}: a bulk with {len(docs)} document(s) is declared as bulk-size {declared!r}")
                    if not 0 < len(docs) <= bulk_size:
                        bad("bound", f"clients {g}: a bulk holds {len(docs)} documents, the configured bulk size is {bulk_size}")
                    for d in docs:
                        seen[(d.get("f"), d.get("n"))] = seen.get((d.get("f"), d.get("n")), 0) + 1
                        order.setdefault(d.get("f"), []).append(d.get("n"))
                for f, ns in order.items():
                    if any(not isinstance(n, int) for n in ns) or any(b_ != a_ + 1 for a_, b_ in zip(ns, ns[1:])):
                        bad("contig", f"clients {g} read documents {ns} of file {f}: not one contiguous slice in file order")
            want = {(f, i) for f, (p_, n, m_) in s_.meta.items() for i in range(n)}
            twice = sorted(k for k, c in seen.items() if c > 1 or k not in want)
            missing = sorted(want - set(seen))
            if twice:
                bad("tile", f"ingested more than once: {[f'{f}#{n}' for f, n in twice][:6]}")
                bad("twice", f"ingested more than once: {[f'{f}#{n}' for f, n in twice][:6]}")
            if missing:
                bad("tile", f"never ingested: {[f'{f}#{n}' for f, n in missing][:6]}")
                bad("missing", f"never ingested: {[f'{f}#{n}' for f, n in missing][:6]}")
        except _Cannot as x:
            v = {n: (None, str(x)) for n in names}
        for n in names:
            V_.add(n, label, v[n][0], v[n][1])

    shape = ("tile", "twice", "missing", "contig", "bound", "pair")
    for groups in ([[0], [1], [2], [3]], [[0, 1], [2, 3]], [[0, 1, 2, 3]], [[0], [1, 2], [3]], [[3, 2], [1, 0]]):  # (the order in which co-located clients register is not fixed)
        label = f"4 clients on workers {groups}, bulk size 3, batch size 6"
        prog: list = []
        reads: list = []
        res = guarded_run(label, shape + ("progress", "cut"), sim, groups, 4, base, progress=prog, reads=reads)
        if res is not None:
            check_streams(label, sim, res, 3, shape)
            for g, s in res:
                full.setdefault(tuple(g), s)
            # at 100 % a source hands out everything its readers produce (generators are evaluated eagerly: what the file sources handed out IS what the readers produce)
            ok, detail = True, ""
            try:
                for g, handed in reads:
                    emitted: dict = {}
                    for g2, s in res:
                        if g2 is g:
                            for b in s:
                                for d in _docs_of(_decode(b, 3)[1] or []):
                                    emitted[d.get("f")] = emitted.get(d.get("f"), 0) + 1
                    for f, (path, n_, has_meta) in sim.meta.items():
                        if handed.get(path, 0) != emitted.get(f, 0) * (2 if has_meta else 1) and ok:
                            ok, detail = False, (f"clients {g}: the readers of file {f} produce {handed.get(path, 0) // (2 if has_meta else 1)} documents, the source hands out "
                                                 f"{emitted.get(f, 0)} before it stops (ingest-percentage 100)")
            except _Cannot as x:
                ok, detail = None, str(x)
            V_.add("cut", label, ok, detail)
            # progress as the driver reads it: after the i-th bulk of a source with B bulks it is i / B, and it is defined once the source is exhausted
            ok, detail = True, ""
            for (g, s), (g2, seen) in zip(res, prog):
                for i, pc in enumerate(seen):
                    want = min(i + 1, len(s)) / len(s) if s else None
                    if isinstance(pc, _Raised):
                        ok, detail = False, f"clients {g}: percent_completed raises {pc} after {min(i + 1, len(s))} of {len(s)} bulks"
                    elif isinstance(pc, bool) or not isinstance(pc, _NUM):
                        ok, detail = None, f"percent_completed is a {type(pc).__name__}"
                    elif want is not None and abs(pc - want) > 1e-9:
                        ok, detail = False, f"clients {g}: percent_completed is {pc!r} after {min(i + 1, len(s))} of {len(s)} bulks"
                    if ok is not True:
                        break
                if ok is not True:
                    break
            V_.add("progress", label, ok, detail)
    for groups, clients, params in (([[0], [1, 2]], 3, {"bulk-size": 2}), ([[0, 1, 2, 3, 4]], 5, {"bulk-size": 4, "batch-size": 4})):
        label = f"{clients} clients on workers {groups}, bulk size {params['bulk-size']}"
        res = guarded_run(label, shape, sim, groups, clients, params)
        if res is not None:
            check_streams(label, sim, res, params["bulk-size"], shape)
    # ingest percentage: every source stops after the first ceil(p %) of the bulks it emits at 100 %
    for groups, pct in (([[0, 1], [2, 3]], 50), ([[0, 1], [2, 3]], 33.4), ([[0, 1, 2, 3]], 10), ([[0], [1, 2], [3]], 75.0)):
        label = f"ingest-percentage {pct}, 4 clients on workers {groups}"
        res = guarded_run(label, ("cut",), sim, groups, 4, dict(base, **{"ingest-percentage": pct}))
        if res is None:
            continue
        ok, detail = True, ""
        for g, s in res:
            ref = full.get(tuple(g))
            if ref is None:
                ok, detail = None, "no reference run at 100 %"
                break
            want = math.ceil(fractions.Fraction(str(pct)) * len(ref) / 100)
            if len(s) != want:
                ok, detail = False, f"clients {g} emit {len(s)} of their {len(ref)} bulks, ceil({pct} %) is {want}"
                break
            if [b.get("body") for b in s] != [b.get("body") for b in ref[:want]]:
                ok, detail = False, f"clients {g}: the bulks emitted are not the first {want} of the group's bulks"
                break
        V_.add("cut", label, ok, detail)
    # ... also where the exact product all_bulks * p / 100 is an integer that binary floating point misses (250 * 64.4 / 100 == 161.00000000000003)
    simf = _Sim(pr, source_cls, {"Z": [("Z1", 250, False)]})
    label = "ingest-percentage 64.4, one client, 250 bulks of one document"
    res = guarded_run(label, ("cut",), simf, [[0]], 1, {"bulk-size": 1, "ingest-percentage": 64.4})
    if res is not None:
        try:
            got = [[(d.get("f"), d.get("n")) for d in _docs_of(_decode(b, 1)[1] or [])] for b in res[0][1]]
            ok = got == [[("Z1", i)] for i in range(161)]
            V_.add("cut", label, ok, "" if ok else f"the source emits {len(got)} bulks, ceil(64.4 % of 250) is 161")
        except _Cannot as x:
            V_.add("cut", label, None, str(x))
    # a worker whose clients have no documents: its source is exhausted at once and its progress is still defined (the schedule of a co-located client reads it)
    sime = _Sim(pr, source_cls, {"C": [("C1", 2, False)]})
    label = "2 documents, 4 clients on 4 workers (two of them without documents)"
    prog = []
    res = guarded_run(label, ("progress0", "emptytile"), sime, [[0], [1], [2], [3]], 4, {"bulk-size": 3}, progress=prog)
    if res is not None:
        check_streams(label, sime, res, 3, ("tile",))
        V_.rows["emptytile"] = V_.rows.get("emptytile", []) + [V_.rows["tile"].pop()]
        empty = [(g, seen) for (g, s), (g2, seen) in zip(res, prog) if not s]
        bad = [(g, seen) for g, seen in empty if any(isinstance(x, _Raised) for x in seen)]
        V_.add("progress0", label, None if not empty else not bad,
               "no worker without documents in the model" if not empty else (f"client {bad[0][0]} has no bulks; percent_completed raises {[x for x in bad[0][1] if isinstance(x, _Raised)][0]}" if bad else ""))
    # looped mode starts over instead of stopping
    ref = full.get((0, 1, 2, 3))
    if ref:
        label = "looped, 4 clients on one worker"
        res = guarded_run(label, ("loop",), sim, [[0, 1, 2, 3]], 4, dict(base, looped=True), pulls=2 * len(ref) + 1)
        if res is not None:
            got = [b.get("body") for b in res[0][1]]
            ok = got == [ref[i % len(ref)].get("body") for i in range(2 * len(ref) + 1)]
            V_.add("loop", label, ok, "" if ok else f"{len(got)} bulks drawn; they are not the group's {len(ref)} bulks repeated from the beginning")
    # id conflicts: one client per worker (F46 is about co-located clients), scripted random draws
    simc = _Sim(pr, source_cls, _FILES_PLAIN)
    for mode, recency in (("sequential", None), ("sequential", 0.5), ("random", None), ("random", 1)):
        params = {"bulk-size": 2, "conflicts": mode, "conflict-probability": 50, "on-conflict": "update"}
        if recency is not None:
            params["recency"] = recency
        label = f"conflicts {mode}, recency {recency}, 3 clients on 3 workers"
        names = ("ids", "idtile")
        rnd = _Rnd()
        res = guarded_run(label, names, simc, [[0], [1], [2]], 3, params, rnd=rnd)
        if res is None:
            continue
        ok, detail = True, ""
        owner: dict = {}
        try:
            n_conf = 0
            for g, stream in res:
                emitted = set()
                for b in stream:
                    declared, items = _decode(b, 2)
                    if items is None or len(items) % 2 or not all(isinstance(x, dict) and len(x) >= 1 for x in items):
                        raise _Cannot("bulk body with id conflicts is not a sequence of action / document lines")
                    for a in items[0::2]:
                        kind = next(iter(a))
                        id_ = (a[kind].get("_index"), a[kind].get("_id")) if isinstance(a[kind], dict) else (None, None)
                        if kind not in ("index", "update") or id_[1] is None:
                            raise _Cannot(f"action line {json.dumps(a)[:80]} carries no id")
                        if kind == "update":
                            n_conf += 1
                            if id_ not in emitted and ok:
                                ok, detail = False, f"client {g[0]}: the conflicting action refers to id {id_}, which this client has not emitted yet (emitted so far: {len(emitted)})"
                        else:
                            if id_ in emitted and ok:
                                ok, detail = False, f"client {g[0]}: fresh id {id_} handed out twice"
                            if owner.setdefault(id_, g[0]) != g[0] and ok:
                                ok, detail = False, f"id {id_} is generated for client {owner[id_]} and for client {g[0]}"
                            emitted.add(id_)
            if ok and n_conf == 0:
                ok, detail = None, "the scripted draws produced no conflicting action"
        except _Cannot as x:
            ok, detail = None, str(x)
        V_.add("ids", label, ok, detail)
        check_streams(label, simc, res, 2, ("tile", "contig"))
        V_.rows["idtile"] = V_.rows.get("idtile", []) + [V_.rows["tile"].pop()]
        V_.rows["idcontig"] = V_.rows.get("idcontig", []) + [V_.rows["contig"].pop()]
    # a read of the file source that FAILS (OSError: EIO, ESTALE, ..) in the middle of a slice is not the end of the slice: the source fails, or (after a retry) nothing is lost
    simx = _Sim(pr, source_cls, _FILES)
    for groups, clients, fpath, k in (([[0, 1], [2, 3]], 4, "A1", 1), ([[0, 1], [2, 3]], 4, "A2", 2), ([[0, 1, 2, 3]], 4, "A1", 3), ([[0], [1], [2]], 3, "B1", 1), ([[0, 1, 2]], 3, "C1", 1)):
        label = f"read {k} of file {fpath} fails with OSError, {clients} clients on workers {groups}, bulk size 3, batch size 6"
        simx.fault, simx.reads_of_faulty, simx.faults_raised = (simx.meta[fpath][0], k), 0, 0
        try:
            res = simx.run(groups, clients, base)
        except _Cannot as x:
            V_.add("fault", label, None, str(x))
            continue
        except _Raised as x:
            # the task fails (whatever the exception is): accepted - provided it was the rule's fault that ended it
            V_.add("fault", label, True if simx.faults_raised else None, f"the parameter source raises {x}" if simx.faults_raised else f"raises {x} before the read that was to fail")
            continue
        if not simx.faults_raised:
            V_.add("fault", label, None, "the read that was to fail is never issued")
            continue
        try:
            seen: dict = {}
            for g, stream in res:
                for b in stream:
                    for d in _docs_of(_decode(b, 3)[1] or []):
                        seen[(d.get("f"), d.get("n"))] = seen.get((d.get("f"), d.get("n")), 0) + 1
            want = {(f, i) for f, (p_, n, m_) in simx.meta.items() for i in range(n)}
            missing = sorted(want - set(seen))
            V_.add("fault", label, not missing, f"every source ends with a regular StopIteration (the task completes) although {len(missing)} of {len(want)} documents were never handed out "
                                                f"({[f'{f}#{n}' for f, n in missing][:5]}): the failed read is taken for the end of the slice" if missing else "all documents handed out after the failed read")
        except _Cannot as x:
            V_.add("fault", label, None, str(x))
    simx.fault = None
    V_.steps = sim.steps + simc.steps + simf.steps + sime.steps + simx.steps
    return V_


# which value runs decide the clauses of which rule (and therefore settle a shape its recognisers do not know)
_RULE_SIMS = {"O3.1": ("tile",), "O3.2": ("tile", "contig", "cut"), "O3.3": ("tile", "contig"), "O3.4": ("pair", "bound"), "O3.5": ("bound", "pair", "tile"), "O3.6": ("ids", "idtile"),
              "O3.9": ("tile",), "O3.8": ("cut", "loop")}
# under which rule the rows of a value run are reported, and as what
_SIM_ROWS = [("O3.1", "tile", "on values: the slices of all workers tile every file - no document twice, none left out"),
             ("O3.2", "contig", "on values: every worker reads one contiguous slice of each file, in file order"),
             ("O3.2", "idcontig", "on values: with id conflicts every worker reads one contiguous slice of each file, in file order"),
             ("O3.3", "twice", "on values: no worker reads into its neighbour's slice"),
             ("O3.4", "pair", "on values: every document follows its own action line, lines alternate"),
             ("O3.5", "bound", "on values: no bulk exceeds the bulk size and the declared bulk-size is its document count"),
             ("O3.6", "ids", "on values: a conflicting action names an id the same client emitted before; fresh ids are unique and disjoint across clients"),
             ("O3.6", "idtile", "on values: with id conflicts every document is still ingested exactly once"),
             ("O3.9", "missing", "on values: every document set with a non-empty share is read to the end of the share"),
             ("O3.8", "cut", "on values: every source stops after the first ceil(p %) of the bulks it emits at 100 %"),
             ("O3.8", "loop", "on values: a looped source starts over instead of stopping"),
             ("O3.8", "progress", "on values: percent_completed is i / B after the i-th of a source's B bulks"),
             ("O3.8", "progress0", "on values: the progress of a worker without documents is defined"),
             ("O3.9", "emptytile", "on values: clients without documents do not disturb the others - every document is still ingested exactly once"),
             ("O3.14", "fault", "on values: a failed read is not the end of a slice - the source raises or still hands out every document")]


def run(chk):
    repo = chk.repo
    pr, io_ = repo.module(_P), repo.module(_I)
    chk.use(pr, io_)
    chk.explanation = (
        "The clauses about what the parameter source hands to the runner are decided END TO END ON VALUES: the analysed classes are instantiated and driven by a small local evaluator "
        "(no repository code is run or imported) through the driver's contract - ParamSource(track, params), partition(client, clients), params() until StopIteration - on a model of "
        "three corpora / four files (with and without action lines) whose stand-in file sources hand out numbered lines: for seven splits of 3-5 clients over workers the bulks of all "
        "workers contain every document exactly once, every worker reads contiguous slices in file order, no bulk exceeds the bulk size, the declared bulk-size is the number of "
        "documents and every document follows its own action line; with an ingest percentage every source stops after the first ceil(p %) of its bulks, looped sources start over; with "
        "id conflicts (scripted random draws, both selection formulas at their extremes) a conflicting action only names an id the same client has emitted before and ids of different "
        "clients are disjoint. The structural obligations of the first phase are kept as recognisers that localise a report: bounds() inlined symbolically (start(s) and end(e) are the "
        "same rounding of the same linear expression, one factor k in {1,2}), role-identical arguments of both consumers of bounds(), every read bounded by min(bulk size, limit - "
        "progress), pairing factor, conflict index within the emitted prefix, ceiling division, staggering moves every reader once. A shape a recogniser does not know is decided by the "
        "value runs the clause is about (never falsified for being unfamiliar; inconclusive if the pipeline cannot be evaluated either). Also on values: the ingest cut-off equals the "
        "exact ceil(all * p / 100) for products that are integers mathematically but not in binary floating point; progress is current / total and is defined for a total of 0; for "
        "every conflict mode that builds an id list, what partition() hands to a client was created for that client. Path rule: every (re)creation of a document file is followed (or "
        "preceded) by the removal of that file's offset table before the table is prepared, because O3.7 trusts a table on its mtime alone - 'no table of this file exists' is a fact "
        "established along control-flow edges (a statement that deletes the table's file name, evaluated for a sample path; the branch of an existence test that is only taken "
        "without the table, the test being evaluated in worlds with and without the table file; an own helper - method or module-level function - that establishes it on all its "
        "normal paths); offset-table protocol (O3.7). O3.13: the file source class handed to the slice reader is opened by the evaluator over a byte file of the rule (open / mmap.mmap "
        "are stand-ins) and read to its end in chunks of 1, 5, 12 and 50 lines - every line exactly once, also a last line without a newline. O3.14: the value runs are repeated with a "
        "file source whose k-th read raises OSError: the parameter source raises, or nothing is lost - it never ends with a regular StopIteration and documents missing."
    )
    chk.not_decided = "round(total/n * n) == total for all n (float), byte-exactness of tell() cookies for multi-byte text, mmap vs text-mode newline agreement, order of co-located clients."
    chk.trusted += ["stand-in for io's file source: readlines(n) hands out the next min(n, remaining) lines, skip_lines(path, source, n) advances the source by n lines (the real readlines is "
                    "decided on values by O3.13, the real skipper by O3.11, the offset table by O3.7)", "the local evaluator of rules/C03.py interprets the subset of Python the bulk pipeline is written in faithfully"]

    # ---- the bulk pipeline on values (rows are reported under the rule whose clause they decide, see the end of run) --------------------------------------------------
    # role: the parameter source of bulk tasks is the class the module registers for the bulk operation type
    reg = [st.value.args[1].id for st in pr.tree.body if isinstance(st, ast.Expr) and isinstance(st.value, ast.Call) and len(st.value.args) == 2 and isinstance(st.value.args[1], ast.Name)
           and isinstance(st.value.args[0], ast.Attribute) and st.value.args[0].attr == "Bulk" and isinstance(pr.index().get(st.value.args[1].id), ast.ClassDef)]
    try:
        VD = _pipeline_verdicts(pr, pr.cls(reg[0] if len(reg) == 1 else "BulkIndexParamSource"))
    except AnchorMissing as x:
        VD = _Verdicts()
        VD.note = str(x)
    bp = total = s = e = n = flag = OFF = DOCS = LINES = NB_DOCS = crp = c2 = None

    def fn_(name):
        d = pr.index().get(name)
        return d if isinstance(d, source.FUNC_TYPES) else None

    # anchors shared by several rules (a block whose anchors are missing is decided on values; the other blocks do not depend on it)
    cr, nb, cdr, bg = fn_("create_readers"), fn_("number_of_bulks"), fn_("create_default_reader"), fn_("bulk_generator")
    S, PB = pr.index().get("Slice"), pr.index().get("PartitionBulkIndexParamSource")
    # role: the slicing function is what the reader factory calls to get the triple it unpacks
    tc = _triple_call(cr) if cr is not None else None
    if tc is None and cr is not None:
        # ... or keeps as a record: a function of the module that returns three elements
        tc = next((c for c in source.calls_in(cr) if fn_(last_attr(c.func) or "") is not None and len(_returned_elts(pr, fn_(last_attr(c.func))) or []) == 3), None)
    bf = fn_(last_attr(tc.func) or "") if tc is not None else None
    bf = bf if bf is not None else fn_("bounds")
    if bf is not None and len(params_of(bf)) == 5:
        total, s, e, n, flag = params_of(bf)  # positions are the roles: (documents of the file, first client, last client, clients, action-and-meta-data flag)
    # role: the method of the partition source that sets up readers and totals is the one that consults the bulk counter
    ii = next((m_ for m_ in pr.methods(PB).values() if nb is not None and any(last_attr(c.func) == nb.name for c in source.calls_in(m_))), None) if isinstance(PB, ast.ClassDef) else None
    if ii is None and isinstance(PB, ast.ClassDef):
        ii = pr.methods(PB).get("_init_internal_params")

    def need(**anchors):
        missing = [k_ for k_, v in anchors.items() if v is None]
        if missing:
            raise AnchorMissing(f"{_P}: {', '.join(missing)} not located")

    def decided(rule, sims=None):
        """(True, text) if every value run the rule's clauses are about was evaluated and is right, (False, first wrong row), (None, why it could not be evaluated)."""
        sims = sims or _RULE_SIMS[rule]
        res = [VD.get(nm) for nm in sims]
        wrong = [d for v, d in res if v is False]
        if wrong:
            return False, wrong[0]
        unk = [d for v, d in res if v is None]
        if unk:
            return None, unk[0]
        return True, f"value runs {', '.join(sims)}: {'; '.join(d for v, d in res)}"

    def ob(rule, instance, ok, node=None, detail="", key=None, sims=None):
        """one structural obligation. `ok` is what the recogniser of the first phase says about the shape it knows. A shape it does not recognise is NOT a finding: the clause is
        then decided by the value runs it is about - falsified only if the evaluated pipeline emits something wrong, inconclusive if it cannot be evaluated either."""
        if ok:
            return chk.ob(rule, instance, True, node, detail, key=key)
        v, d = decided(rule, sims)
        if v is False:
            return chk.ob(rule, instance, False, node, (f"{detail} - " if detail else "") + f"on values: {d}", key=key)
        if v is None:
            chk.unknown(rule, f"{instance}: shape not recognised ({detail[:100]}) and the pipeline cannot be evaluated on values: {d}", node)
            return False
        chk.ob(rule, instance, True, node, f"shape not recognised ({detail[:100]}); decided on values - {d}", key=key)
        return False

    def block(rule, fn):
        """the recognisers of one rule; a role that cannot be located ends the block - the clause is then decided on values like an unrecognised shape."""
        try:
            fn()
            return
        except AnchorMissing as x:
            why = str(x)
        except Exception as x:  # a recogniser met a shape it was not written for (None where a node was expected, ...): not recognised, never a verdict
            why = f"unexpected shape ({type(x).__name__}: {x})"
        v, d = decided(rule)
        if v is None:
            chk.unknown(rule, f"roles not located: {why}; and the pipeline cannot be evaluated on values: {d}")
        elif v:
            chk.adv(rule, f"roles not located: {why}; the rule's clauses are decided on values - {d}")

    # ---- O3.1 slices telescope -------------------------------------------------------------------------------------------------------------
    chk.rule("O3.1", "bounds(): start(s) and end(e) are the same rounding applied to docs_per_client * s and docs_per_client * (e + 1) (so end(e) == start(e + 1)); docs == end - start; "
             "lines == docs * k; offset == start * k with one k in {1, 2} selected by the action-and-meta-data flag; returned as (offset, docs, lines)", 6,
             "any split where a directly computed share differs by rounding: a document between two clients is read twice or never")

    def o31():
        nonlocal bp, total, s, e, n, flag, OFF, DOCS, LINES, NB_DOCS, crp, c2
        need(bounds=bf)
        bp = params_of(bf)
        if len(bp) != 5:
            raise AnchorMissing(f"bounds(): five parameters expected, found {bp}")
        total, s, e, n, flag = bp
        defs = local_defs(bf)
        # role: what the function hands back, element by element - a tuple display or the construction of a tuple-like record (NamedTuple class / namedtuple()) whose arguments,
        # positional or by keyword, are put into FIELD order: positional consumers (`offset, docs, lines = bounds(..)`) see exactly that order
        elts = _returned_elts(pr, bf)
        if elts is None or len(elts) != 3:
            raise AnchorMissing("bounds() return tuple")
        off_e, docs_e, lines_e = elts

        def unround(x):
            x = defs.get(x.id, x) if isinstance(x, ast.Name) else x
            if isinstance(x, ast.Call) and dotted(x.func) in ("round", "int", "math.floor", "math.ceil") and len(x.args) == 1:
                return dotted(x.func), x.args[0]
            return None, x

        # find start / end locals: docs == end - start
        dx = defs.get(docs_e.id) if isinstance(docs_e, ast.Name) else docs_e
        ok = isinstance(dx, ast.BinOp) and isinstance(dx.op, ast.Sub) and isinstance(dx.left, ast.Name) and isinstance(dx.right, ast.Name)
        ob("O3.1", "docs == end - start", ok, dx if dx is not None else bf, u(dx) if dx is not None else "")
        if not ok:
            return
        endv, startv = dx.left.id, dx.right.id
        rf_s, arg_s = unround(ast.Name(id=startv, ctx=ast.Load()))
        rf_e, arg_e = unround(ast.Name(id=endv, ctx=ast.Load()))
        ok = rf_s is not None and rf_s == rf_e
        ob("O3.1", "start and end use the same rounding function", ok, defs.get(startv, bf), f"start: {rf_s}, end: {rf_e}")
        A = parse_expr(f"{total} / {n}")
        a_s = inline_node(arg_s, defs)
        a_e = inline_node(arg_e, defs)
        ok_s = rat_equal(a_s, parse_expr(f"({total} / {n}) * {s}"))
        ok_e = rat_equal(a_e, parse_expr(f"({total} / {n}) * ({e} + 1)"))
        ob("O3.1", "start == round(total/n * s)", ok_s, defs.get(startv, bf), u(a_s))
        ob("O3.1", "end == round(total/n * (e + 1))  [== start(e + 1)]", ok_e, defs.get(endv, bf), u(a_e))
        # telescoping identity proper: end[e+1 -> x] is alpha-equivalent to start[s -> x]
        try:
            r1 = ratfun(a_s, atom=lambda nd: "X" if isinstance(nd, ast.Name) and nd.id == s else None)
            r2 = ratfun(a_e, atom=lambda nd: "X" if (isinstance(nd, ast.BinOp) and isinstance(nd.op, ast.Add) and {u(nd.left), u(nd.right)} == {e, "1"}) else None)
            ob("O3.1", "end(e) and start(e + 1) are the same expression", r1 == r2, defs.get(endv, bf), f"{r1} vs {r2}")
        except Exception as ex:  # NotRational
            ob("O3.1", "end(e) and start(e + 1) are the same expression", False, bf, str(ex))
        kdefs = [k for k, v in defs.items() if isinstance(v, ast.IfExp) and source.is_const(v.body, 2) and source.is_const(v.orelse, 1) and u(v.test) == flag]
        ok = len(kdefs) == 1
        k = kdefs[0] if ok else "?"
        ob("O3.1", "k == 2 if action-and-meta-data else 1", ok, defs.get(k, bf) if ok else bf, "")
        ok = rat_equal(inline_node(lines_e, {docs_e.id: dx} if False else {kk: vv for kk, vv in defs.items() if kk not in (startv, endv, k)}), parse_expr(f"({endv} - {startv}) * {k}"))
        ob("O3.1", "lines == docs * k", ok, lines_e, u(defs.get(lines_e.id)) if isinstance(lines_e, ast.Name) else u(lines_e))
        ok = rat_equal(inline_node(off_e, {kk: vv for kk, vv in defs.items() if kk not in (startv, endv, k)}), parse_expr(f"{startv} * {k}"))
        ob("O3.1", "offset == start * k", ok, off_e, u(defs.get(off_e.id)) if isinstance(off_e, ast.Name) else u(off_e))

    block("O3.1", o31)

    # the slices tile the corpus only if every client of the TASK gets one: the driver partitions with (task-local index, the task's client count)
    from rules.C05 import partition_call_rule

    drv_ = repo.module("esrally/driver/driver.py")
    chk.use(drv_)

    def shared(rule, fn, *args):
        """a rule function owned by another module: an anchor it cannot locate is its 'not recognised', the other rules of this property are still evaluated."""
        try:
            fn(*args)
        except AnchorMissing as x:
            chk.unknown(rule, f"anchor missing: {x}")

    shared("O3.1", partition_call_rule, chk, "O3.1", drv_)
    from rules.C02 import allocation_totals

    shared("O3.1", allocation_totals, chk, "O3.1", drv_)

    # ---- O3.2 both consumers slice identically ---------------------------------------------------------------------------------------------------
    chk.rule("O3.2", "the call of bounds() in the reader factory and in the bulk counter pass role-identical arguments; results are unpacked in the returned order; values flow to the reader and "
             "slice parameters of the same meaning; the partition source hands the same (start, end, total, bulk size) to both", 10,
             "the ingest-percentage cut-off counts bulks of other slices / another bulk size: the group stops early or late")

    def o32():
        nonlocal bp, total, s, e, n, flag, OFF, DOCS, LINES, NB_DOCS, crp, c2
        need(create_readers=cr, number_of_bulks=nb, bounds=bf, bounds_parameters=total)
        OFF = DOCS = LINES = NB_DOCS = None
        for f, names in ((cr, ("start_client_index", "end_client_index", "num_clients")), (nb, None)):
            calls = [c for c in source.calls_in(f) if last_attr(c.func) == bf.name]
            if not calls:
                raise AnchorMissing(f"{bf.name}() call in {f.name}")
            c = calls[0]
            b = bind_args(c, bf, skip_self=False)
            fp = params_of(f)
            if len(fp) < 5:
                raise AnchorMissing(f"{f.name}(): at least five parameters expected, found {fp}")
            loop = source.enclosing(c, ast.For)
            dv = loop.target.id if loop is not None and isinstance(loop.target, ast.Name) else "docs"
            ok = u(b.get(total)) == f"{dv}.number_of_documents" and u(b.get(flag)) == f"{dv}.includes_action_and_meta_data"
            ob("O3.2", f"{f.name}: total and flag come from the document set", ok, c, short(c, 100))
            roles = [u(b.get(s)), u(b.get(e)), u(b.get(n))]
            if f is cr:
                want = ["start_client_index", "end_client_index", "num_clients"]
            else:
                want = [fp[1], fp[2], fp[3]]
            ok = roles == want and all(r in fp for r in roles)
            ob("O3.2", f"{f.name}: (start, end, total clients) are its own parameters in that order", ok, c, f"{roles}")
            st = source.enclosing_stmt(c)
            if isinstance(st, ast.Assign) and isinstance(st.targets[0], ast.Tuple):
                names_ = [u(t) for t in st.targets[0].elts]
                reads = {n.id for n in walk_body(f) if isinstance(n, ast.Name) and isinstance(n.ctx, ast.Load)}
                if f is cr:
                    # positions are the roles (offset, docs, lines); three distinct plain names, each consumed below
                    ok = len(names_) == 3 and len(set(names_)) == 3 and all(isinstance(t, ast.Name) for t in st.targets[0].elts)
                    OFF, DOCS, LINES = names_ if ok else (None, None, None)
                else:
                    # the counter consumes the document count (position 1) and nothing else of the triple
                    ok = len(names_) == 3 and names_[1] in reads and names_[0] not in reads and names_[2] not in reads
                    NB_DOCS = names_[1] if ok and isinstance(st.targets[0].elts[1], ast.Name) else None
                ob("O3.2", f"{f.name}: result unpacked as (offset, docs, lines)", ok, st, f"{names_}")
            elif f is nb:
                # ... or the counter selects the one element it needs: `n = bounds(..)[1]` / `n = bounds(..).<the field at position 1 of the record bounds() returns>`
                sel = _selected_element(pr, bf, c)
                if sel is not None:
                    NB_DOCS = sel[1] if sel[0] == 1 else None
                    ob("O3.2", f"{f.name}: result unpacked as (offset, docs, lines)", sel[0] == 1, source.enclosing_stmt(c),
                       f"element {sel[0]} of {_returned_fields(pr, bf) or '(offset, docs, lines)'} is kept as `{sel[1]}`")
            elif isinstance(st, ast.Assign) and st.value is c and len(st.targets) == 1 and isinstance(st.targets[0], ast.Name) and _returned_fields(pr, bf):
                # ... or the factory keeps the record and reads its fields by name: the roles are the field positions
                whole, fields_ = st.targets[0].id, _returned_fields(pr, bf)
                rebinds = [x for x in walk_body(f) if isinstance(x, ast.Name) and isinstance(x.ctx, ast.Store) and x.id == whole]
                ok = len(fields_) == 3 and len(rebinds) == 1
                OFF, DOCS, LINES = [f"{whole}.{fl}" for fl in fields_] if ok else (None, None, None)
                ob("O3.2", f"{f.name}: result unpacked as (offset, docs, lines)", ok, st, f"kept as `{whole}` with the fields {fields_}")
        need(create_default_reader=cdr)
        rc = [c for c in source.calls_in(cr) if u(c.func) == "create_reader"]
        crp = params_of(cr)
        rloop = source.enclosing(rc[0], ast.For) if rc else None
        rdv = rloop.target.id if rloop is not None and isinstance(rloop.target, ast.Name) else "docs"
        ok = bool(rc) and [u(a) for a in rc[0].args[:6]] == [rdv, OFF, LINES, DOCS, "batch_size", "bulk_size"] and {"batch_size", "bulk_size"} <= set(crp) \
            and params_of(cdr)[:6] == ["docs", "offset", "num_lines", "num_docs", "batch_size", "bulk_size"]
        ob("O3.2", "reader factory receives (docs, offset, lines, docs count, batch, bulk) under the parameters of the same meaning", ok, rc[0] if rc else cr, "")
        sl = [c for c in source.calls_in(cdr) if last_attr(c.func) == "Slice"]
        need(Slice=S, PartitionBulkIndexParamSource=PB, its_setup_method=ii)
        sinit = _meth(pr, S, "__init__")
        ok = bool(sl) and [u(a) for a in sl[0].args[1:3]] == ["offset", "num_lines"] and params_of(sinit)[2:4] == ["offset", "number_of_lines"]
        ob("O3.2", "slice created with (offset, number of lines)", ok, sl[0] if sl else cdr, "")
        ok = any(isinstance(x, ast.Assign) and is_self_attr(x.targets[0], "offset") and u(x.value) == "offset" for x in walk_body(sinit)) and any(
            isinstance(x, ast.Assign) and is_self_attr(x.targets[0], "number_of_lines") and u(x.value) == "number_of_lines" for x in walk_body(sinit))
        ob("O3.2", "slice stores offset and limit under their own names", ok, sinit, "")
        so = _meth(pr, S, "open")
        sk = [c for c in source.calls_in(so) if last_attr(c.func) == "skip_lines"]
        ok = bool(sk) and _arg(sk[0], 2) == "self.offset" and _arg(sk[0], 1) == "self.source"
        ob("O3.2", "slice skips exactly its offset on open", ok, sk[0] if sk else so, "")
        bdb = pr.func("bulk_data_based")
        c1 = [c for c in source.calls_in(ii) if last_attr(c.func) == "bulk_data_based"]
        c2 = [c for c in source.calls_in(ii) if last_attr(c.func) == "number_of_bulks"]
        if not c1 or not c2:
            raise AnchorMissing("bulk_data_based / number_of_bulks calls in _init_internal_params")
        b1 = {k: u(v) for k, v in bind_args(c1[0], bdb, skip_self=False).items()}
        b2 = {k: u(v) for k, v in bind_args(c2[0], nb, skip_self=False).items()}
        nbp = params_of(nb)
        same = b1.get("start_client_index") == b2.get(nbp[1]) and b1.get("end_client_index") == b2.get(nbp[2]) and b1.get("num_clients") == b2.get(nbp[3]) and b1.get("corpora") == b2.get(nbp[0])
        ob("O3.2", "reader and counter get the same corpora / start / end / total", same, c2[0], f"readers: {[b1.get(x) for x in ('corpora', 'start_client_index', 'end_client_index', 'num_clients')]} counter: {[b2.get(x) for x in nbp[:4]]}")
        ok = b1.get("bulk_size") == b2.get(nbp[4]) == "self.bulk_size" and b1.get("batch_size") == "self.batch_size"
        ob("O3.2", "reader and counter use the same bulk size (not the batch size)", ok, c2[0], f"readers bulk_size={b1.get('bulk_size')} batch_size={b1.get('batch_size')}; counter bulk size={b2.get(nbp[4])}")
        idefs = local_defs(ii)
        a_start, a_end = bind_args(c2[0], nb, skip_self=False).get(nbp[1]), bind_args(c2[0], nb, skip_self=False).get(nbp[2])
        ok = a_start is not None and a_end is not None and source.inline(a_start, idefs) == "self.partitions[0]" and source.inline(a_end, idefs) == "self.partitions[-1]" and any(
            isinstance(x, ast.Assign) and is_self_attr(x.targets[0], "partitions") and u(x.value) == "sorted(self.partitions)" for x in walk_body(ii))
        ob("O3.2", "start/end are the first/last of the sorted partition list", ok, ii, "")
        # pass-through in bulk_data_based
        crc = [c for c in source.calls_in(bdb) if last_attr(c.func) == "create_readers"]
        ok = bool(crc) and [u(a) for a in crc[0].args[:6]] == ["num_clients", "start_client_index", "end_client_index", "corpora", "batch_size", "bulk_size"] and params_of(cr)[:6] == ["num_clients", "start_client_index", "end_client_index", "corpora", "batch_size", "bulk_size"]
        ob("O3.2", "bulk_data_based hands its parameters on unchanged", ok, crc[0] if crc else bdb, "")

    block("O3.2", o32)

    # ---- O3.3 bounded read -------------------------------------------------------------------------------------------------------------------------
    chk.rule("O3.3", "slice reader: every read is readlines(min(bulk size, limit - progress)); progress += len(lines read) on every path after the read; StopIteration once progress >= limit", 4,
             "a client that is not the last one reads into its neighbour's slice (documents ingested twice)")

    def o33():
        nonlocal bp, total, s, e, n, flag, OFF, DOCS, LINES, NB_DOCS, crp, c2
        need(Slice=S)
        nx = _meth(pr, S, "__next__")
        g = cfg_of(nx)
        reads = [c for c in source.calls_in(nx) if last_attr(c.func) in ("readlines", "readline", "read")]
        ok = len(reads) == 1 and last_attr(reads[0].func) == "readlines"
        ob("O3.3", "single read site", ok, reads[0] if reads else nx, "")
        if reads:
            a = inline_node(reads[0].args[0], local_defs(nx)) if reads[0].args else None
            ok = isinstance(a, ast.Call) and dotted(a.func) == "min" and len(a.args) == 2 and any(u(x) == "self.bulk_size" for x in a.args) and any(rat_equal(x, parse_expr("self.number_of_lines - self.current_line")) for x in a.args)
            ob("O3.3", "read bounded by min(bulk size, limit - progress)", ok, reads[0], u(a) if a is not None else "unbounded")
            asg = source.enclosing_stmt(reads[0])
            lv = u(asg.targets[0]) if isinstance(asg, ast.Assign) else None
            adv = [x for x in walk_body(nx) if isinstance(x, ast.AugAssign) and is_self_attr(x.target, "current_line")]
            ok = len(adv) == 1 and isinstance(adv[0].op, ast.Add) and u(adv[0].value) == f"len({lv})" and not guards(adv[0]) and g.dominated_by_nodes(g.node_of(adv[0]), [g.node_of(reads[0])])
            ob("O3.3", "progress += len(lines read), unconditionally after the read", ok, adv[0] if adv else nx, "")
            ow = [x for m in pr.methods(S).values() for x in walk_body(m) if isinstance(x, (ast.Assign, ast.AugAssign)) and is_self_attr(x.targets[0] if isinstance(x, ast.Assign) else x.target, "current_line") and x not in adv and m.name != "__init__"]
            ob("O3.3", "no other writer of the progress counter", not ow, ow[0] if ow else S, "")
        stops = [x for x in walk_body(nx) if isinstance(x, ast.Raise) and "StopIteration" in u(x.exc)]
        ok = any(holds(x, "self.current_line >= self.number_of_lines") for x in stops) and bool(reads) and \
            any(g.dominated_by_nodes(g.node_of(reads[0]), [g.node_of(source.enclosing(x, ast.If))]) for x in stops if source.enclosing(x, ast.If) is not None)
        ob("O3.3", "StopIteration once progress >= limit, tested before reading", ok, stops[0] if stops else nx, "")

    block("O3.3", o33)

    # ---- O3.4 pairing factor ----------------------------------------------------------------------------------------------------------------------------
    chk.rule("O3.4", "factor 2 is used consistently: source-only reader doubles the bulk size (lines) and halves the reported count; the meta-data reader appends exactly one action line per "
             "document line in both the fast and the regular path", 4,
             "files with action lines: bulks cut between an action line and its document, or doc counts doubled")

    def o34():
        nonlocal bp, total, s, e, n, flag, OFF, DOCS, LINES, NB_DOCS, crp, c2
        SO = pr.cls("SourceOnlyIndexDataReader")
        soi = _meth(pr, SO, "__init__")
        sup = [c for c in source.calls_in(soi) if last_attr(c.func) == "__init__"]
        ok = bool(sup) and len(sup[0].args) >= 3 and rat_equal(sup[0].args[2], parse_expr("bulk_size * 2")) and _arg(sup[0], 1) == "batch_size"
        ob("O3.4", "source-only reader reads bulk_size * 2 lines per bulk (batch size unchanged)", ok, sup[0] if sup else soi, "")
        rb = _meth(pr, SO, "read_bulk")
        r = [x for x in walk_body(rb) if isinstance(x, ast.Return)]
        # role: the local holding what next(self.file_source) delivered is returned as it is (position 1) and counted as len // 2 (position 0)
        lv_ = _returned_name(rb, 1)
        ok = len(r) == 1 and lv_ is not None and pat.is_(r[0].value, "(len(V_l) // 2, V_l)", binds={"l": lv_}) and pat.is_(local_defs(rb).get(lv_), "next(self.file_source)")
        ob("O3.4", "source-only reader reports len(lines) // 2 documents and returns the lines unchanged", ok, r[0] if r else rb, "")
        MD = pr.cls("MetadataIndexDataReader")
        for name in ("_read_bulk_fast", "_read_bulk_regular"):
            f = _meth(pr, MD, name)
            gf = cfg_of(f)
            loops = [x for x in walk_body(f) if isinstance(x, ast.For)]
            ok = False
            if loops:
                L = loops[0]
                head = gf.node_of(L)
                # roles: the bulk under construction is the (initially empty) list returned at position 1; the document is the loop variable over the lines read
                cb = _returned_name(f, 1)
                apps = [c for c in ast.walk(L) if isinstance(c, ast.Call) and cb is not None and pat.is_(c.func, "V_b.append", binds={"b": cb}) and len(c.args) == 1]
                docv = L.target.id if isinstance(L.target, ast.Name) else None
                # on every path of one iteration: exactly one append whose argument carries the document
                doc_apps = [c for c in apps if any(isinstance(x, ast.Name) and x.id == docv for x in ast.walk(c.args[0]))]
                starts = gf.edge_targets(head, "iter")
                dn = [gf.node_of(c) for c in doc_apps]
                every = bool(dn) and all(head.id not in gf.reachable([s_], avoid=dn, edge_ok=gf.normal_edge) for s_ in starts)
                twice = any(gf.path_exists(a_, b_, avoid=[head]) for a_ in dn for b_ in dn if a_.id != b_.id)
                meta_apps = [c for c in apps if c not in doc_apps]
                if name == "_read_bulk_fast":
                    ok = every and not twice and len(meta_apps) == 1 and not guards(meta_apps[0], stop=L) and meta_apps[0].lineno < doc_apps[0].lineno
                else:
                    # a meta line precedes the doc whenever a meta item exists
                    ok = every and not twice and len(meta_apps) >= 1 and all(any(gf.path_exists(gf.node_of(m), d_, avoid=[head]) for d_ in dn) for m in meta_apps)
                r = [x for x in walk_body(f) if isinstance(x, ast.Return)]
                ok = ok and len(r) == 1 and isinstance(L.iter, ast.Name) and pat.is_(r[0].value, "(len(V_l), V_b)", binds={"l": L.iter.id, "b": cb}) and _empty_list_local(f, cb)
                src = local_defs(f).get(u(L.iter))
                ok = ok and pat.is_(src, "next(self.file_source)")
            ob("O3.4", f"{name}: one document append per line read (action line before it), count == lines read", ok, f, "")

    block("O3.4", o34)

    # ---- O3.5 bulk-size bound -------------------------------------------------------------------------------------------------------------------------
    chk.rule("O3.5", "the batch loop stops at the batch size; each bulk is one bounded read; the emitted bulk-size is that read's document count", 3, "a bulk larger than the configured bulk size")

    def o35():
        nonlocal bp, total, s, e, n, flag, OFF, DOCS, LINES, NB_DOCS, crp, c2
        IR = pr.cls("IndexDataReader")
        inx = _meth(pr, IR, "__next__")
        wl = [x for x in walk_body(inx) if isinstance(x, ast.While)]
        idefs5 = {k_: v for k_, v in local_defs(inx).items() if is_self_attr(v)}  # hoisted attributes (`batch_size = self.batch_size`)
        rbc = [c for c in ast.walk(wl[0]) if isinstance(c, ast.Call) and source.inline(c.func, idefs5) == "self.read_bulk"] if wl else []
        # roles: the bulk's count is position 0 of the read_bulk() unpack; the batch counter is the local advanced by that count inside the loop; the batch is the list returned last
        un = _unpack_names(rbc[0]) if len(rbc) == 1 else None
        cntv = un[0] if un and len(un) == 2 else None
        accs = [x.target.id for x in ast.walk(wl[0]) if isinstance(x, ast.AugAssign) and isinstance(x.op, ast.Add) and isinstance(x.target, ast.Name) and isinstance(x.value, ast.Name) and x.value.id == cntv] if wl and cntv else []
        ok = bool(wl) and len(accs) == 1 and pat.is_(inline_node(wl[0].test, idefs5), "V_acc < self.batch_size", binds={"acc": accs[0]})
        ob("O3.5", "batch loop: while docs_in_batch < batch size", ok, wl[0] if wl else inx, u(wl[0].test) if wl else "")
        batchv = _returned_name(inx, -1)
        ap = [c for c in ast.walk(wl[0]) if isinstance(c, ast.Call) and pat.is_(c.func, "V_b.append", binds={"b": batchv})] if wl and batchv else []
        ok = len(rbc) == 1 and len(ap) == 1 and cntv is not None and len(ap[0].args) == 1 and isinstance(ap[0].args[0], ast.Tuple) and bool(ap[0].args[0].elts) and pat.is_(ap[0].args[0].elts[0], "V_c", binds={"c": cntv}) and _empty_list_local(inx, batchv)
        ob("O3.5", "one read_bulk() per appended bulk, reported with its own count", ok, ap[0] if ap else inx, "")
        ent = _meth(pr, IR, "__enter__")
        ok = any(isinstance(c, ast.Call) and last_attr(c.func) == "open" and _arg(c, 2) == "self.bulk_size" for c in walk_body(ent))
        ob("O3.5", "the slice is opened with the reader's bulk size", ok, ent, "")
        # the reader factory hands batch size and bulk size to each reader under the parameter of the same meaning (both are ints: a swap type-checks and only shows with batch != bulk);
        # each reader class passes them on to the base class in the same roles (the source-only reader doubles the bulk size: two lines per document)
        cdr_ = pr.func("create_default_reader")
        base_init = pr.methods(IR).get("__init__")
        n_ctor = 0
        for cname in ("SourceOnlyIndexDataReader", "MetadataIndexDataReader"):
            rc_ = pr.cls(cname)
            rinit = pr.methods(rc_).get("__init__")
            for c in [c for c in source.calls_in(cdr_) if last_attr(c.func) == cname]:
                n_ctor += 1
                b_ = bind_args(c, rinit)
                ok = u(b_.get("batch_size")) == "batch_size" and u(b_.get("bulk_size")) == "bulk_size" and {"batch_size", "bulk_size"} <= set(params_of(cdr_))
                ob("O3.5", f"{cname}(...) gets batch_size := batch_size, bulk_size := bulk_size", ok, c, f"batch_size={u(b_.get('batch_size'))} bulk_size={u(b_.get('bulk_size'))}",
                       key=f"{_P}:create_default_reader:{cname}:sizes")
            sup = [c for c in source.calls_in(rinit) if isinstance(c.func, ast.Attribute) and c.func.attr == "__init__" and isinstance(c.func.value, ast.Call) and dotted(c.func.value.func) == "super"] if rinit is not None else []
            if sup and base_init is not None:
                sb = bind_args(sup[0], base_init)
                want_bulk = ("bulk_size * 2", "2 * bulk_size") if cname == "SourceOnlyIndexDataReader" else ("bulk_size",)
                ok = u(sb.get("batch_size")) == "batch_size" and u(sb.get("bulk_size")) in want_bulk
                ob("O3.5", f"{cname} passes (batch size, bulk size{' x 2 lines' if len(want_bulk) == 2 else ''}) on to the base reader in the same roles", ok, sup[0],
                       f"batch_size={u(sb.get('batch_size'))} bulk_size={u(sb.get('bulk_size'))}", key=f"{_P}:{cname}.__init__:sizes")
        ob("O3.5", "reader constructions located in the factory", n_ctor >= 2, cdr_, f"{n_ctor} site(s)")
        need(bulk_generator=bg)
        dd = [x for x in walk_body(bg) if isinstance(x, ast.Dict) and any(source.is_const(k_, "bulk-size") for k_ in x.keys)]
        ok = False
        if dd:
            dct = {k_.value: v for k_, v in zip(dd[0].keys, dd[0].values) if isinstance(k_, ast.Constant)}
            lp = source.enclosing(dd[0], ast.For)
            ok = lp is not None and isinstance(lp.target, ast.Tuple) and len(lp.target.elts) == 2 and all(isinstance(t, ast.Name) for t in lp.target.elts) and "body" in dct \
                and pat.is_(dct["bulk-size"], "V_n", binds={"n": lp.target.elts[0].id}) and pat.is_(dct["body"], "V_b", binds={"b": lp.target.elts[1].id})
        ob("O3.5", "emitted bulk-size / body are the bulk's own count / lines", ok, dd[0] if dd else bg, "")

    block("O3.5", o35)

    # ---- O3.6 conflict ids ---------------------------------------------------------------------------------------------------------------------------------
    chk.rule("O3.6", "conflict path: only under id_up_to > 0; index in [0, id_up_to - 1] (randint(0, up - 1) / round((up - 1) * (1 - r)) with r = min(.., 1)); id_up_to grows by one only on the "
             "non-conflict path; ids are offset by the slice offset; with conflicts enabled the id window (one per parameter source) serves one client", 6,
             "a conflicting action refers to an id this client has not emitted yet (or to another client's id)")

    def o36():
        nonlocal bp, total, s, e, n, flag, OFF, DOCS, LINES, NB_DOCS, crp, c2
        need(create_default_reader=cdr)
        GA = pr.cls("GenerateActionMetaData")
        gn = _meth(pr, GA, "__next__")
        gg = cfg_of(gn)
        subs = [x for x in walk_body(gn) if isinstance(x, ast.Subscript) and is_self_attr(x.value, "conflicting_ids")]
        idx_subs = [x for x in subs if isinstance(x.slice, ast.Name) and x.slice.id != "self"]
        if not idx_subs:
            raise AnchorMissing("conflict-path subscript of conflicting_ids")
        cs = idx_subs[0]
        gs = guards(cs)
        ats = [u(a) for t, pol in gs if pol for a in (t.values if isinstance(t, ast.BoolOp) and isinstance(t.op, ast.And) else [t])]
        ob("O3.6", "conflict path only when ids were already emitted (id_up_to > 0)", holds(cs, "self.id_up_to > 0"), cs, f"{ats}")
        iv = cs.slice.id
        idefs = [x for x in walk_body(gn) if isinstance(x, ast.Assign) and u(x.targets[0]) == iv]
        gdefs = local_defs(gn)
        for d in idefs:
            v = d.value
            ok = False
            detail = u(v)
            if isinstance(v, ast.Call) and last_attr(v.func) == "randint" and len(v.args) == 2:
                ok = source.is_const(v.args[0], 0) and rat_equal(v.args[1], parse_expr("self.id_up_to - 1"))
                if not ok:
                    detail += " — randint is inclusive: the upper bound must be id_up_to - 1"
            elif isinstance(v, ast.Call) and dotted(v.func) == "round" and len(v.args) == 1:
                a = v.args[0]
                if isinstance(a, ast.BinOp) and isinstance(a.op, ast.Mult):
                    fac = [x for x in (a.left, a.right) if rat_equal(x, parse_expr("self.id_up_to - 1"))]
                    oth = [x for x in (a.left, a.right) if x not in fac]
                    if fac and oth and isinstance(oth[0], ast.BinOp) and isinstance(oth[0].op, ast.Sub) and source.is_const(oth[0].left, 1):
                        rr = gdefs.get(u(oth[0].right))
                        ok = isinstance(rr, ast.Call) and dotted(rr.func) == "min" and any(source.is_const(x, 1) for x in rr.args)
            ob("O3.6", f"conflict index `{short(d, 60)}` stays within [0, id_up_to - 1]", ok, d, detail)
        incs = [x for x in walk_body(gn) if isinstance(x, ast.AugAssign) and is_self_attr(x.target, "id_up_to")]
        ok = len(incs) == 1 and source.is_const(incs[0].value, 1) and isinstance(incs[0].op, ast.Add) and not gg.path_exists(gg.node_of(cs), gg.node_of(incs[0])) and not gg.path_exists(gg.node_of(incs[0]), gg.node_of(cs))
        ob("O3.6", "id_up_to += 1 only on the non-conflict path", ok, incs[0] if incs else gn, "")
        nsub = [x for x in subs if is_self_attr(x.slice, "id_up_to")]
        ok = bool(nsub) and bool(incs) and gg.dominated_by_nodes(gg.node_of(incs[0]), [gg.node_of(nsub[0])])
        ob("O3.6", "a fresh id is the next unused one (ids[id_up_to], then advance)", ok, nsub[0] if nsub else gn, "")
        bc = pr.func("build_conflicting_ids")
        fm = [x for x in walk_body(bc) if isinstance(x, ast.BinOp) and isinstance(x.op, ast.Mod) and isinstance(x.left, ast.Constant) and isinstance(x.left.value, str)]
        lp = source.enclosing(fm[0], ast.For) if fm else None
        cp = source.enclosing(fm[0], (ast.ListComp, ast.GeneratorExp)) if fm else None
        if cp is not None and len(cp.generators) == 1 and not cp.generators[0].ifs and (lp is None or any(x is lp for x in source.ancestors(cp))):
            lp = cp.generators[0]  # `[fmt % (offset + i) for i in range(docs)]`: target / iter play the loop's roles
        bcp = params_of(bc)
        if len(bcp) < 3:
            raise AnchorMissing(f"build_conflicting_ids(): (conflicts, docs, offset) parameters expected, found {bcp}")
        ok = bool(fm) and lp is not None and isinstance(lp.target, ast.Name) and rat_equal(fm[0].right, parse_expr(f"{bcp[2]} + {lp.target.id}")) and u(lp.iter) == f"range({bcp[1]})"
        ob("O3.6", "ids are offset + i for i in range(docs of this slice) (no collisions across clients)", ok, fm[0] if fm else bc, "")
        bcall = [c for c in source.calls_in(cdr) if last_attr(c.func) == "build_conflicting_ids"]
        ok = bool(bcall) and [u(a) for a in bcall[0].args] == ["id_conflicts", "num_docs", "offset"]
        ob("O3.6", "id list built for this slice's (docs, offset)", ok, bcall[0] if bcall else cdr, "")
    block("O3.6", o36)

    # the emitted prefix [0, id_up_to) is an attribute of the action/meta-data generator, i.e. of ONE reader of ONE partition source; it is the prefix "this client has emitted" only
    # if no other client draws bulks from the same source (the value runs above drive one client per worker). Decided on values: the body of the task-level partition() is evaluated
    # for every conflict mode for which build_conflicting_ids() builds an id list; what it hands to the client must have been created for this call (not an object made once in the
    # constructor and given to every co-located client).
    def o36b():
        bc = pr.func("build_conflicting_ids")
        bcp = params_of(bc)
        if len(bcp) < 3:
            raise AnchorMissing(f"build_conflicting_ids(): (conflicts, docs, offset) parameters expected, found {bcp}")
        BIP, PBS = pr.cls("BulkIndexParamSource"), pr.cls("PartitionBulkIndexParamSource")
        part, bi_init = _meth(pr, BIP, "partition"), _meth(pr, BIP, "__init__")
        enum_names = set()
        for nd_ in walk_body(bc):
            if isinstance(nd_, ast.Compare) and len(nd_.ops) == 1:
                for a_, b_ in ((nd_.left, nd_.comparators[0]), (nd_.comparators[0], nd_.left)):
                    if pat.is_(a_, "V_c", binds={"c": bcp[0]}) and isinstance(b_, ast.Attribute) and dotted(b_.value) is not None:
                        enum_names.add(dotted(b_.value))
        if len(enum_names) != 1:
            raise AnchorMissing(f"build_conflicting_ids(): the conflict-mode enumeration its first parameter is compared with (found {sorted(enum_names)})")
        EN = enum_names.pop()
        members = [t.id for x in pr.cls(EN).body if isinstance(x, ast.Assign) for t in x.targets if isinstance(t, ast.Name)]
        menv = {f"{EN}.{m_}": m_ for m_ in members}
        # which modes build an id list: the function is evaluated as a whole (3 documents at offset 0) - loop, comprehension or helper, whatever builds the list
        m6 = _M(pr, None, None, {"random.shuffle": _stub(lambda xs: None)})
        windowed = []
        for m_ in members:
            try:
                if m6.call_def(bc, [m6.getattr(_Cls(pr.cls(EN)), m_), 3, 0], {}) is not None:
                    windowed.append(m_)
            except (_Cannot, _Raised) as x:
                raise AnchorMissing(f"build_conflicting_ids() cannot be evaluated for mode {m_}: {x}")
        mode_attr = sorted({x.targets[0].attr for x in walk_body(bi_init) if isinstance(x, ast.Assign) and is_self_attr(x.targets[0]) and dotted(x.value) in menv})
        made_once = sorted({x.targets[0].attr for x in walk_body(bi_init) if isinstance(x, ast.Assign) and is_self_attr(x.targets[0]) and isinstance(x.value, ast.Call) and last_attr(x.value.func) == PBS.name})
        if len(mode_attr) != 1 or not windowed or len(windowed) == len(members):
            raise AnchorMissing(f"BulkIndexParamSource: conflict-mode attribute {mode_attr}, modes with an id list {windowed} of {members}")

        class _Src:
            def __init__(self, origin, fresh):
                self.origin, self.fresh = origin, fresh

        def _own(h):
            def call(c, env):
                env2 = {k_: v for k_, v in env.items() if "." in k_}
                for k_, a in bind_args(c, h).items():
                    try:
                        env2[k_] = _val(a, env, pr.imports, hooks)
                    except _Cannot:
                        env2[k_] = _OPAQUE
                return _exec(h.body, env2, pr.imports, hooks)[1]
            return call

        hooks = {PBS.name: lambda c, env: _Src(short(c, 60), True)}
        hooks.update({f"self.{h.name}": _own(h) for h in pr.methods(BIP).values() if h is not part and h.name != "__init__"})
        pp = _own_params(part)
        bad_modes, handed = [], set()
        try:
            for m_ in windowed:
                env = {f"self.{mode_attr[0]}": m_, **menv, **{f"self.{a_}": _Src(f"self.{a_} (created once in __init__)", False) for a_ in made_once}, **{p_: i_ for i_, p_ in enumerate(pp)}}
                v = _exec(part.body, env, pr.imports, hooks)[1]
                if not isinstance(v, _Src):
                    raise _Cannot(f"what partition() returns for mode {m_} is not a partition parameter source the rule can follow")
                handed.add(v.origin)
                if not v.fresh:
                    bad_modes.append(m_)
            chk.ob("O3.6", "with id conflicts enabled each client draws from an id window of its own: partition() hands every client a parameter source created for it", not bad_modes, part,
                   f"conflict modes {bad_modes}: every co-located client receives {sorted(handed)} - one reader, one id_up_to: a client's conflicting ids are drawn from ids the GROUP emitted"
                   if bad_modes else f"modes {windowed}: {sorted(handed)}", key=f"{_P}:BulkIndexParamSource.partition:shared-id-window")
        except (_Cannot, _Raised) as x:
            chk.unknown("O3.6", f"BulkIndexParamSource.partition() cannot be evaluated on values: {x}", part)

    def o36c():
        """the same question put to the driver's contract (no name inside the classes is consulted): with conflicts enabled, do two co-located clients that register with one
        task-level source receive two parameter sources? One object for both is one reader, one action generator, one id_up_to."""
        src_cls = pr.index().get(reg[0] if len(reg) == 1 else "BulkIndexParamSource")
        if not isinstance(src_cls, ast.ClassDef):
            raise _Cannot("the bulk parameter source class is not located")
        simk = _Sim(pr, src_cls, _FILES_PLAIN)
        bad_modes, seen_ = [], []
        for mode in ("sequential", "random"):
            m_ = simk.machine(_Rnd())
            src = m_.apply(_Cls(src_cls), [simk.track(), {"bulk-size": 2, "conflicts": mode, "conflict-probability": 50, "on-conflict": "update"}], {})
            parts = [m_.apply(m_.getattr(src, "partition"), [c_, 2], {}) for c_ in (0, 1)]
            if not all(isinstance(p_, _Obj) for p_ in parts):
                raise _Cannot("partition() does not return an object")
            seen_.append(f"{mode}: {'one ' + repr(parts[0]) + ' for both clients' if parts[0] is parts[1] else 'a source per client'}")
            if parts[0] is parts[1]:
                bad_modes.append(mode)
        part = pr.methods(src_cls).get("partition") or src_cls
        chk.ob("O3.6", "with id conflicts enabled each client draws from an id window of its own: partition() hands every client a parameter source created for it", not bad_modes, part,
               (f"conflict modes {bad_modes}: every co-located client receives the same object - one reader, one id_up_to: a client's conflicting ids are drawn from ids the GROUP emitted; "
                if bad_modes else "") + "; ".join(seen_), key=f"{_P}:BulkIndexParamSource.partition:shared-id-window")

    try:
        o36c()
    except (_Cannot, _Raised) as x0:
        # not evaluable through the contract: the extracted body of partition() is evaluated per conflict mode instead
        try:
            o36b()
        except AnchorMissing as x:  # the value runs drive one client per worker and say nothing about co-located clients: not recognised stays not recognised
            chk.unknown("O3.6", f"who shares an id window: not evaluable through the driver's contract ({x0}) nor from the body of partition() ({x})")

    # ---- O3.9 every reader is consumed exactly once ---------------------------------------------------------------------------------------------------------
    chk.rule("O3.9", "reader factory: corpora are rotated (not filtered) for staggering; a reader is created for every document set with a non-empty share; the staggering loop moves every "
             "created reader into the result exactly once; chain() runs every reader inside its context; the bulk generator walks every batch and bulk", 6,
             "a whole corpus file is never ingested (or ingested twice) for some client index / number of corpora")

    def o39():
        nonlocal bp, total, s, e, n, flag, OFF, DOCS, LINES, NB_DOCS, crp, c2
        cdefs3 = local_defs(cr)
        # roles: the document-set loop is the loop around the bounds() call, the corpus loop the one around that; the rotated list is what the corpus loop iterates over
        need(create_readers=cr, bulk_generator=bg)
        crp = params_of(cr)
        bcs = [tc] if tc is not None else []
        if DOCS is None and tc is not None and _unpack_names(tc):
            DOCS = _unpack_names(tc)[1]  # role: the share's document count is position 1 of the slice triple
        il0 = source.enclosing(bcs[0], ast.For) if bcs else None
        ol0 = source.enclosing(il0, ast.For) if il0 is not None else None
        rotv = ol0.iter.id if ol0 is not None and isinstance(ol0.iter, ast.Name) else None
        rot = cdefs3.get(rotv) if rotv else None
        mb = pat.match(rot, "corpora[V_k:] + corpora[:V_k]")
        k_ = cdefs3.get(mb["k"]) if mb else None
        ok = mb is not None and pat.is_(k_, "start_client_index % len(corpora)") and {"corpora", "start_client_index"} <= set(crp)
        ob("O3.9", "corpora rotated by start % len (every corpus kept once)", ok, rot if rot is not None else cr, u(rot) if rot is not None else "")
        ol = [ol0] if ol0 is not None and rotv is not None and any(n is ol0 for n in walk_body(cr)) else []
        il = [il0] if ol and isinstance(ol0.target, ast.Name) and pat.is_(il0.iter, "V_c.documents", binds={"c": ol0.target.id}) else []
        ok = bool(ol) and bool(il)
        ob("O3.9", "every document set of every (rotated) corpus is visited", ok, ol[0] if ol else cr, "")
        RQ = CNT = CRS = None
        if il:
            mk = [n for n in ast.walk(il[0]) if isinstance(n, ast.Call) and u(n.func) == "create_reader"]
            # roles: the reader is the local the factory call is assigned to; the queue is what it is appended to; the counter is the local advanced in the document-set loop
            rdv_ = _target_name(mk[0]) if mk else None
            ap_ = [n for n in ast.walk(il[0]) if isinstance(n, ast.Call) and rdv_ is not None and pat.is_(n, "V_q.append(V_r)", binds={"r": rdv_})]
            inc_ = [n for n in ast.walk(il[0]) if isinstance(n, ast.AugAssign) and isinstance(n.target, ast.Name)]
            fs_ = pat.fact_nodes(mk[0], stop=il[0]) if mk else None
            gs_ = [u(t) for t in fs_] if fs_ is not None else None
            ok = len(mk) == 1 and len(ap_) == 1 and len(inc_) == 1 and DOCS is not None and len(fs_) == 1 and pat.is_(fs_[0], "E_d > 0", binds={"d": DOCS}) and isinstance(inc_[0].op, ast.Add) and source.is_const(inc_[0].value, 1) \
                and _same_block(inc_[0], source.enclosing_stmt(ap_[0])) and _same_block(source.enclosing_stmt(mk[0]), source.enclosing_stmt(ap_[0]))
            if ok:
                RQ, CNT = ap_[0].func.value.id, inc_[0].target.id
                # the queue is a fresh one per corpus
                ok = any((isinstance(x, ast.AnnAssign) and isinstance(x.target, ast.Name) and x.target.id == RQ) or (isinstance(x, ast.Assign) and any(isinstance(t, ast.Name) and t.id == RQ for t in x.targets)) for x in ol[0].body)
            ob("O3.9", "a reader per document set with a non-empty share, counted once", ok, mk[0] if mk else il[0], f"guards={gs_}")
            qa = [n for n in ast.walk(ol[0]) if isinstance(n, ast.Call) and RQ is not None and pat.is_(n, "V_all.append(V_q)", binds={"q": RQ})]
            ok = len(qa) == 1 and any(x is source.enclosing_stmt(qa[0]) for x in ol[0].body)
            CRS = qa[0].func.value.id if ok else None
            ob("O3.9", "every corpus queue is kept", ok, qa[0] if qa else ol[0], "")
        wl_ = [n for n in walk_body(cr) if isinstance(n, ast.While)]
        ok = False
        if wl_:
            W_ = wl_[0]
            # roles: the result is the (initially empty) list the factory returns; the queues walked are the kept corpus queues; the loop counter is the reader counter
            resv = _returned_name(cr)
            pops = [n for n in ast.walk(W_) if isinstance(n, ast.Call) and last_attr(n.func) == "popleft"]
            decs = [n for n in ast.walk(W_) if isinstance(n, ast.AugAssign) and CNT is not None and pat.is_(n.target, "V_n", binds={"n": CNT}) and isinstance(n.op, ast.Sub) and source.is_const(n.value, 1)]
            qv = pops[0].func.value.id if len(pops) == 1 and isinstance(pops[0].func, ast.Attribute) and isinstance(pops[0].func.value, ast.Name) else None
            ql = source.enclosing(pops[0], ast.For) if qv else None
            fs_ = pat.fact_nodes(pops[0], stop=W_) if qv else []
            ok = CNT is not None and pat.is_(W_.test, "V_n > 0", binds={"n": CNT}) and len(pops) == 1 and len(decs) == 1 and qv is not None and resv is not None and _empty_list_local(cr, resv) \
                and isinstance(source.parent(pops[0]), ast.Call) and pat.is_(source.parent(pops[0]), "V_res.append(V_q.popleft())", binds={"res": resv, "q": qv}) \
                and _same_block(decs[0], source.enclosing_stmt(pops[0])) and len(fs_) == 1 and pat.is_(fs_[0], "V_q", binds={"q": qv}) \
                and ql is not None and any(x is ql for x in W_.body) and pat.is_(ql.target, "V_q", binds={"q": qv}) and CRS is not None and pat.is_(ql.iter, "V_all", binds={"all": CRS})
        ob("O3.9", "staggering moves every created reader into the result exactly once", ok, wl_[0] if wl_ else cr, "")
        chf = pr.func("chain")
        ok = any(isinstance(n, ast.With) and any(isinstance(x, ast.Expr) and isinstance(x.value, ast.YieldFrom) for x in n.body) for n in walk_body(chf)) and any(isinstance(n, ast.For) and "is not None" in u(n.iter) for n in walk_body(chf))
        ob("O3.9", "chain(): every (non-None) reader is opened and fully delegated to", ok, chf, "")
        bgl = [n for n in walk_body(bg) if isinstance(n, ast.For)]
        ok = len(bgl) == 2 and u(bgl[0].iter) == "readers" and not any(isinstance(x, (ast.Break, ast.Continue)) or (isinstance(x, ast.If) and any(isinstance(y, ast.Continue) for y in x.body)) for x in ast.walk(bgl[0]))
        ys = [n for n in ast.walk(bg) if isinstance(n, ast.Yield)]
        ok = ok and len(ys) == 1 and not any("pipeline" not in u(t) for t, pol in guards(ys[0], stop=bgl[1]))
        ob("O3.9", "bulk generator yields every bulk of every batch", ok, bg, "")

    block("O3.9", o39)

    # ---- O3.7 offset table ------------------------------------------------------------------------------------------------------------------------------------
    from rules.C14 import offset_table_protocol

    shared("O3.7", offset_table_protocol, chk, io_, "O3.7")
    from rules.C14 import line_count_rule

    ldr_ = repo.module("esrally/track/loader.py")
    chk.use(ldr_)
    shared("O3.7", line_count_rule, chk, "O3.7", ldr_)
    shared("O3.10", _stale_table_rule, chk, ldr_, io_)
    shared("O3.11", _skipper_rule, chk, io_, pr)
    shared("O3.12", _source_per_task_rule, chk, drv_)
    shared("O3.13", _file_source_rule, chk, io_, pr)

    # ---- O3.8 bulk counting and percentage cut-off --------------------------------------------------------------------------------------------------------------
    chk.rule("O3.8", "per file the bulk count is the ceiling division of the slice's documents by the bulk size; total_bulks == ceil(all_bulks * p / 100) exactly (also for fractional p); "
             "params() raises StopIteration at current == total unless looped and increments current once per returned bulk; progress is current / total and is defined for a total of 0", 5,
             "with ingest percentage p the group stops one bulk early/late; without it the tail of the slice is never ingested")

    def o38():
        nonlocal bp, total, s, e, n, flag, OFF, DOCS, LINES, NB_DOCS, crp, c2
        # roles: the bulk counter is the local number_of_bulks() returns; the slice's document count is position 1 of its bounds() unpack
        bulkv = _returned_name(nb)
        acc = [x for x in walk_body(nb) if isinstance(x, ast.AugAssign) and isinstance(x.op, ast.Add) and bulkv is not None and pat.is_(x.target, "V_b", binds={"b": bulkv})]
        ndefs = {}
        for x in walk_body(nb):
            if isinstance(x, ast.Assign) and isinstance(x.targets[0], ast.Tuple) and isinstance(x.value, ast.Tuple):
                for t, v in zip(x.targets[0].elts, x.value.elts):
                    ndefs[u(t)] = v
            elif isinstance(x, ast.Assign) and isinstance(x.targets[0], ast.Name):
                ndefs[u(x.targets[0])] = x.value
        bsz = params_of(nb)[4]
        ok = False
        nd_ = {"d": NB_DOCS}
        zero = [x for x in walk_body(nb) if isinstance(x, ast.Assign) and bulkv is not None and any(pat.is_(t, "V_b", binds={"b": bulkv}) for t in x.targets)]
        loopv = {t.id for x in walk_body(nb) if isinstance(x, ast.For) for t in ast.walk(x.target) if isinstance(t, ast.Name)}
        idefs_ = {k_: v for k_, v in ndefs.items() if k_ != NB_DOCS and k_ != bulkv and k_ not in loopv}
        start0 = NB_DOCS is not None and len(zero) == 1 and source.is_const(zero[0].value, 0) and source.parent(zero[0]) is nb
        if len(acc) == 2 and start0:
            one = [x for x in acc if source.is_const(x.value, 1)]
            full = [x for x in acc if x not in one]
            if len(one) == 1 and len(full) == 1:
                fe = inline_node(full[0].value, idefs_)
                ok = pat.is_(fe, f"V_d // {bsz}", binds=nd_) and not guards(full[0], stop=source.enclosing(full[0], ast.For)) \
                    and any(pat.is_(inline_node(t, idefs_), f"V_d % {bsz} > 0", f"V_d % {bsz} != 0", binds=nd_) for t in pat.fact_nodes(one[0], stop=source.enclosing(one[0], ast.For)))
        elif len(acc) == 1 and start0:
            v = inline_node(acc[0].value, idefs_)
            ok = pat.is_(v, f"math.ceil(V_d / {bsz})", f"-(-V_d // {bsz})", f"(V_d + {bsz} - 1) // {bsz}", binds=nd_) and not guards(acc[0], stop=source.enclosing(acc[0], ast.For))
        ob("O3.8", "bulks per file == ceil(docs / bulk size)", ok, acc[0] if acc else nb, "")
        # role: the attribute holding the ingest percentage = the constructor parameter that receives the value read from the user's "ingest-percentage" setting
        BI = pr.cls("BulkIndexParamSource")
        binit, pinit = _meth(pr, BI, "__init__"), _meth(pr, PB, "__init__")
        src_attr = [x.targets[0].attr for x in walk_body(binit) if isinstance(x, ast.Assign) and is_self_attr(x.targets[0]) and isinstance(x.value, ast.Call)
                    and any(source.is_const(a, "ingest-percentage") for a in list(x.value.args) + [k_.value for k_ in x.value.keywords])]
        ctor = [c for c in source.calls_in(binit) if last_attr(c.func) == PB.name]
        pct_param = [k_ for k_, v in bind_args(ctor[0], pinit).items() if src_attr and is_self_attr(v, src_attr[0])] if ctor else []
        pct_attr = [x.targets[0].attr for x in walk_body(pinit) if isinstance(x, ast.Assign) and is_self_attr(x.targets[0]) and pct_param and pat.is_(x.value, "V_p", binds={"p": pct_param[0]})]
        # role: the method that computes the cut-off is the one that consults the bulk counter
        # role: the method that computes the cut-off is the one that consults the bulk counter - itself or through own helper methods; it is entered where the driver's contract
        # enters it (a method without parameters of its own that is not reached from another candidate)
        pmeths = pr.methods(PB)

        def reaches(m_, seen=()):
            if any(last_attr(c.func) == nb.name for c in source.calls_in(m_)):
                return True
            return any(reaches(pmeths[c.func.attr], seen + (m_.name,)) for c in source.calls_in(m_) if is_self_attr(c.func) and c.func.attr in pmeths and c.func.attr not in seen + (m_.name,))

        cand = [m_ for m_ in pmeths.values() if not _own_params(m_) and m_.name != "params" and not any(dotted(d) in ("property", "staticmethod", "classmethod") for d in m_.decorator_list) and reaches(m_)]
        inits = [m_ for m_ in cand if not any(is_self_attr(c.func, m_.name) for o_ in cand if o_ is not m_ for c in source.calls_in(o_))]
        tb = [x for m_ in inits for x in walk_body(m_) if isinstance(x, ast.Assign) and is_self_attr(x.targets[0])]

        def cutoff(nbulks, p):
            """the cut-off a source computes for a group with `nbulks` bulks and ingest percentage p: the method is evaluated on an object that carries the percentage (own helper
            methods are followed); the counter's result is fixed wherever it is consulted; the cut-off is the one number the method leaves in an attribute."""
            fired = []
            obj = _Obj(PB, {pct_attr[0]: p})
            m8 = _M(pr, None, {nb.name: lambda c, env: fired.append(1) or nbulks})
            m8.call_def(inits[0], [obj], {}, PB)
            if not fired:
                raise _Cannot("the bulk counter is not consulted")
            nums = {k_: v for k_, v in obj.attrs.items() if k_ != pct_attr[0] and isinstance(v, _NUM) and not isinstance(v, bool)}
            if len(nums) != 1:
                raise _Cannot(f"no single computable number is left in an attribute (found {sorted(nums)})")
            return next(iter(nums.values()))

        # decided on VALUES: the extracted computation is evaluated for bulk counts / percentages whose exact product is (and is not) an integer; binary floating point gets the first rows wrong
        ok, detail, empty_total = True, "", None
        try:
            if len(pct_attr) != 1 or len(inits) != 1:
                raise _Cannot(f"the attribute of {PB.name} that stores the 'ingest-percentage' setting (found {pct_attr}) / the method that consults the bulk counter (found {[m_.name for m_ in inits]})")
            for nb_, p_, want in _CUTOFF_ROWS:
                try:
                    got = cutoff(nb_, p_)
                except _Raised as x:
                    got = f"raises {x}"
                if isinstance(got, bool) or not isinstance(got, _NUM) or got != want:
                    ok, detail = False, f"{nb_} bulks at {p_}%: {got!r} instead of {want}"
                    break
            try:
                empty_total = cutoff(0, 100.0)
            except _Raised:
                pass
            chk.ob("O3.8", "total_bulks == ceil(all_bulks * p / 100)", ok, tb[-1] if tb else (inits[0] if inits else PB), detail)
        except _Cannot as x:
            # not evaluable in isolation: the end-to-end runs decide (they include a product that binary floating point misses)
            ob("O3.8", "total_bulks == ceil(all_bulks * p / 100)", False, tb[-1] if tb else PB, f"the cut-off cannot be evaluated in isolation: {x}", sims=("cut",))
        pm = _meth(pr, PB, "params")
        gpm = cfg_of(pm)
        stop = [x for x in walk_body(pm) if isinstance(x, ast.Raise) and "StopIteration" in u(x.exc)]
        ok = bool(stop) and (holds(stop[0], "self.current_bulk == self.total_bulks") or holds(stop[0], "self.current_bulk >= self.total_bulks")) and holds(stop[0], "not self.looped")
        ob("O3.8", "StopIteration at current == total unless looped", ok, stop[0] if stop else pm, "")
        inc = [x for x in walk_body(pm) if isinstance(x, ast.AugAssign) and is_self_attr(x.target, "current_bulk")]
        rt = [x for x in walk_body(pm) if isinstance(x, ast.Return)]
        ok = len(inc) == 1 and source.is_const(inc[0].value, 1) and not guards(inc[0]) and len(rt) == 1 and u(rt[0].value) == "next(self.internal_params)" and gpm.dominated_by_nodes(gpm.node_of(rt[0]), [gpm.node_of(inc[0])])
        ob("O3.8", "current += 1 once per returned bulk", ok, inc[0] if inc else pm, "")
        ok = any(isinstance(x, ast.Call) and u(x.func) == "self._init_internal_params" and holds(x, "self.current_bulk == 0") for x in walk_body(pm))
        ob("O3.8", "readers and totals initialised before the first bulk", ok, pm, "")
        pc = pr.methods(PB).get("percent_completed")

        def progress(cur, tot):
            return _exec(pc.body, {"self.current_bulk": cur, "self.total_bulks": tot}, pr.imports)[1]

        ok, detail = True, ""
        try:
            if pc is None:
                raise _Cannot("no percent_completed")
            for cur, tot in ((0, 1), (1, 4), (3, 4), (4, 4), (1, 3), (33, 33), (17, 10 ** 12)):
                try:
                    got = progress(cur, tot)
                except _Raised as x:
                    got = f"raises {x}"
                if isinstance(got, bool) or not isinstance(got, _NUM) or abs(got - cur / tot) > 1e-12:
                    ok, detail = False, f"bulk {cur} of {tot}: {got!r} instead of {cur / tot}"
                    break
            chk.ob("O3.8", "progress == current / total bulks", ok, pc, detail)
        except _Cannot as x:
            # the attributes it reads are not the ones fixed here: the end-to-end runs decide (progress as the driver reads it after every bulk)
            ob("O3.8", "progress == current / total bulks", False, pc if pc is not None else PB, f"percent_completed cannot be evaluated in isolation: {x}", sims=("progress",))
        # a group whose slice holds no document has total_bulks == ceil(0 * p / 100) == 0 after its first params() call (which ends in StopIteration as it must); the next co-located
        # client's schedule then reads percent_completed (hasattr() / the loop of ScheduleHandle): an exception there is not a StopIteration, it aborts the race for ALL clients
        try:
            if pc is None or empty_total is None:
                raise _Cannot("the cut-off of an empty partition / percent_completed cannot be evaluated in isolation")
            try:
                got, ok = progress(0, empty_total), True
            except _Raised as x:
                got, ok = f"raises {x}", False
            chk.ob("O3.8", "progress of a group without documents is defined (no division by its total of 0 bulks)", ok, pc,
                   f"all_bulks == 0 -> total_bulks == {empty_total!r}; percent_completed at bulk 0 of {empty_total!r}: {got!r}", key=f"{_P}:{PB.name}.percent_completed:empty-partition")
        except _Cannot as x:
            ob("O3.8", "progress of a group without documents is defined (no division by its total of 0 bulks)", False, pc if pc is not None else PB, str(x),
               key=f"{_P}:{PB.name}.percent_completed:empty-partition", sims=("progress0",))

    block("O3.8", o38)

    # ---- O3.14 a read error is not the end of the data (seed m18) --------------------------------------------------------------------------------------------------------------
    chk.rule("O3.14", "a read error is never taken for the end of a slice, on values: when a read of the opened file source raises OSError in the middle of a client group's slice, the "
             "parameter source either fails (params() / partition() raise something that is not StopIteration: the task is aborted) or still hands out every document; it never ends "
             "regularly (StopIteration = 'all bulks of this group sent') with documents of the corpus not handed out", 4,
             "an I/O error (EIO, ESTALE, ..) while a group reads its slice: the rest of the slice is silently skipped, the readers of the following files continue and the task completes "
             "normally with documents missing")

    # ---- the rows of the value runs, each under the rule whose clause it decides -------------------------------------------------------------------------------------------
    site = pr.index().get(reg[0] if len(reg) == 1 else "BulkIndexParamSource") or _P
    skipped = []
    for rule, name, text in _SIM_ROWS:
        for label, ok, detail in VD.rows.get(name, []):
            if ok is None:
                skipped.append(f"{name} [{label}]: {detail}")
            else:
                chk.ob(rule, f"{text} [{label}]", ok, site, detail, key=f"{_P}:pipeline-on-values:{name}:{label}")
        if not VD.rows.get(name):
            skipped.append(f"{name}: {getattr(VD, 'note', 'not evaluated')}")
    if skipped:
        # not evaluable is not a finding; it is inconclusive only where a recogniser needed the run (reported there) or the floor of a rule is no longer met
        chk.adv("O3.2", f"value runs that could not be evaluated ({len(skipped)}): " + " | ".join(skipped[:4]), site)
    chk.stats["pipeline_evaluation_steps"] = getattr(VD, "steps", 0)

from sa.selftest import V  # noqa: E402

# hardening round 3: text fragments shared by the record-type variants at the end of the list
_R3_IMPORT = ("from typing import Callable, Deque\n", "from typing import Callable, Deque, NamedTuple\n")
_R3_BOUNDS_DEF = "def bounds(total_docs, start_client_index, end_client_index, num_clients, includes_action_and_meta_data):\n"
_R3_RECORD = "class ClientBounds(NamedTuple):\n    # the start offset (in lines) into the document file\n    offset_lines: int\n    # the number of documents\n    docs: int\n    # the number of lines\n    lines: int\n\n\n"
_R3_RECORD_SWAPPED = "class ClientBounds(NamedTuple):\n    offset_lines: int\n    lines: int\n    docs: int\n\n\n"
_R3_RETURN = ("    offset_lines = start_offset_docs * source_lines_per_doc\n    docs = end_offset_docs - start_offset_docs\n    lines = docs * source_lines_per_doc\n\n    return offset_lines, docs, lines\n",
              "    docs = end_offset_docs - start_offset_docs\n\n    return ClientBounds(\n        offset_lines=start_offset_docs * source_lines_per_doc,\n        docs=docs,\n        lines=docs * source_lines_per_doc,\n    )\n")
_R3_COUNTER = "            _, num_docs, _ = bounds(\n                docs.number_of_documents, start_partition_index, end_partition_index, total_partitions, docs.includes_action_and_meta_data\n            )\n"
_R3_COUNTER_FIELD = "            num_docs = bounds(\n                docs.number_of_documents, start_partition_index, end_partition_index, total_partitions, docs.includes_action_and_meta_data\n            ).%s\n"
_R3_FACTORY = ("            offset, num_docs, num_lines = bounds(\n                docs.number_of_documents, start_client_index, end_client_index, num_clients, docs.includes_action_and_meta_data\n            )\n"
               "            if num_docs > 0:\n                reader: IndexDataReader = create_reader(\n"
               "                    docs, offset, num_lines, num_docs, batch_size, bulk_size, id_conflicts, conflict_probability, on_conflict, recency\n                )\n")
_R3_FACTORY_RECORD = ("            share = bounds(\n                docs.number_of_documents, start_client_index, end_client_index, num_clients, docs.includes_action_and_meta_data\n            )\n"
                      "            if share.docs > 0:\n                reader: IndexDataReader = create_reader(\n"
                      "                    docs, share.offset_lines, share.%s, share.%s, batch_size, bulk_size, id_conflicts, conflict_probability, on_conflict, recency\n                )\n")
_R3_BATCH_APPEND = "                batch.append((docs_in_bulk, b\"\".join(bulk)))\n"
_R3_BULK_LOOP = ("        for docs_in_bulk, bulk in batch:\n", "                \"body\": bulk,\n", "                \"bulk-size\": docs_in_bulk,\n")
_R3_DATACLASS = ("from abc import ABC\n", "from abc import ABC\nfrom dataclasses import dataclass, field\n")
_R3_INV = ("    def invalidate_file_offset_table(self, document_file_path):\n        # the data file has just been (re)created: an existing offset table belongs to its predecessor\n"
           "        if os.path.exists(f\"{document_file_path}.offset\"):\n            io.remove_file_offset_table(document_file_path)\n")
_R3_INV_HEAD = "    def invalidate_file_offset_table(self, document_file_path):\n"
_R3_DECOMPRESS = "                self.decompressor.decompress(archive_path, doc_path, document_set.uncompressed_size_in_bytes)\n                self.invalidate_file_offset_table(doc_path)\n"
_R3_DOWNLOAD = "                    self.downloader.download(document_set.base_url, target_path, expected_size)\n                    self.invalidate_file_offset_table(doc_path)\n"
_R3_BUNDLED = "                    self.decompressor.decompress(archive_path, doc_path, document_set.uncompressed_size_in_bytes)\n                    self.invalidate_file_offset_table(doc_path)\n"
_R3_DP = "class DocumentSetPreparator:\n"
# hardening round 4: the io module's pass-through remover inlined into its callers (`io.FileOffsetTable.remove(p)`) / the remover with an option (`missing_ok`)
_R4_WRAPPER = ("def remove_file_offset_table(data_file_path: str) -> None:\n    \"\"\"\n\n    Attempts to remove the file offset table for the provided data path.\n\n"
               "    :param data_file_path: The path to a text file that is readable by this process.\n    \"\"\"\n    FileOffsetTable.remove(data_file_path)\n\n\n")
_R4_MISMATCH = "            io.remove_file_offset_table(document_file_path)\n            raise exceptions.DataError(\n"
_R4_OS_REMOVE = "        os.remove(f\"{data_file_path}.offset\")\n"


def _r4_inlined_remover(kind, name, test="io.FileOffsetTable.read_for_data_file(document_file_path).exists()", call="io.FileOffsetTable.remove(document_file_path)", extra=()):
    """benign/C14-b10: remove_file_offset_table() is gone from the io module, the preparator calls the table class's own remover (test: what the invalidation asks first)."""
    return [V(f"r4: the io module's pass-through remover inlined into its callers{name}", kind, _I, _R4_WRAPPER, "", "O3.10" if kind == "break" else None),
            V("", kind, _L, _R3_INV, _R3_INV_HEAD + f"        if {test}:\n            {call}\n"),
            V("", kind, _L, _R4_MISMATCH, _R4_MISMATCH.replace("io.remove_file_offset_table(document_file_path)", "io.FileOffsetTable.remove(document_file_path)"))] + list(extra)


def _r4_required_flag(kind, name, body):
    """the io module's remover takes a second REQUIRED parameter (body: what it does): which parameter is the path is known from what the call deletes for it."""
    return [V(f"r4: the io module's remover with a required missing_ok flag{name}", kind, _I, "def remove_file_offset_table(data_file_path: str) -> None:",
              "def remove_file_offset_table(data_file_path: str, missing_ok: bool) -> None:", "O3.10" if kind == "break" else None),
            V("", kind, _I, "    FileOffsetTable.remove(data_file_path)\n", body),
            V("", kind, _L, _R3_INV, _R3_INV_HEAD + "        io.remove_file_offset_table(document_file_path, True)\n"),
            V("", kind, _L, _R4_MISMATCH, _R4_MISMATCH.replace("(document_file_path)", "(document_file_path, False)"))]


def _r4_table_object(kind, name, body, extra=(), path="document_file_path"):
    """the invalidation works on the table object a factory returns: `table.exists()` / `table.delete()` (body: what the new method FileOffsetTable.delete does)."""
    return [V(f"r4: the invalidation asks and deletes through the table object{name}", kind, _I, "    @staticmethod\n    def remove(data_file_path: str) -> None:",
              "    def delete(self) -> None:\n" + body + "\n    @staticmethod\n    def remove(data_file_path: str) -> None:", "O3.10" if kind == "break" else None),
            V("", kind, _L, _R3_INV, _R3_INV_HEAD + f"        table = io.FileOffsetTable.read_for_data_file({path})\n        if table.exists():\n            table.delete()\n")] + list(extra)


def _r4_missing_ok(kind, name, body, call="io.remove_file_offset_table(document_file_path, missing_ok=True)"):
    """benign/C03-b11: the remover takes `missing_ok` (body: what FileOffsetTable.remove does), the invalidation no longer asks whether there is a table."""
    return [V(f"r4: remover with a missing_ok option, the invalidation calls it without asking{name}", kind, _I, "    def remove(data_file_path: str) -> None:", "    def remove(data_file_path: str, missing_ok: bool = False) -> None:",
              "O3.10" if kind == "break" else None),
            V("", kind, _I, _R4_OS_REMOVE, body),
            V("", kind, _I, "def remove_file_offset_table(data_file_path: str) -> None:", "def remove_file_offset_table(data_file_path: str, missing_ok: bool = False) -> None:"),
            V("", kind, _I, "    FileOffsetTable.remove(data_file_path)\n", "    FileOffsetTable.remove(data_file_path, missing_ok=missing_ok)\n"),
            V("", kind, _L, _R3_INV, _R3_INV_HEAD + f"        {call}\n")]




# ---- hardening round 5 (benign/C14-b12): the download of prepare_document_set extracted into two helpers, the (path, expected size) pair travels as a record ------------------
_R5_DOWNLOAD_ARM = ("                if document_set.has_compressed_corpus():\n                    target_path = archive_path\n                    expected_size = document_set.compressed_size_in_bytes\n"
                    "                elif document_set.has_uncompressed_corpus():\n                    target_path = doc_path\n                    expected_size = document_set.uncompressed_size_in_bytes\n"
                    "                else:\n                    # this should not happen in practice as the JSON schema should take care of this\n"
                    "                    raise exceptions.RallyAssertionError(f\"Track {self.track_name} specifies documents but no corpus\")\n\n"
                    "                try:\n                    self.downloader.download(document_set.base_url, target_path, expected_size)\n                    self.invalidate_file_offset_table(doc_path)\n"
                    "                except exceptions.DataError as e:\n"
                    "                    if e.message == \"Cannot download data because no base URL is provided.\" and self.is_locally_available(target_path):\n"
                    "                        raise exceptions.DataError(\n                            f\"[{target_path}] is present but does not have the expected \"\n"
                    "                            f\"size of [{expected_size}] bytes and it cannot be downloaded \"\n                            f\"because no base URL is provided.\"\n"
                    "                        ) from None\n                    raise\n")
_R5_PDS = "    def prepare_document_set(self, document_set, data_root):\n"
_R5_RECORD = "class DownloadTarget(NamedTuple):\n    path: str\n    expected_size: Optional[int]\n\n\n"
_R5_TARGET = ("    def download_target(self, document_set, doc_path, archive_path):\n        if document_set.has_compressed_corpus():\n"
              "            return DownloadTarget(archive_path, document_set.compressed_size_in_bytes)\n        if document_set.has_uncompressed_corpus():\n"
              "            return DownloadTarget(doc_path, document_set.uncompressed_size_in_bytes)\n"
              "        raise exceptions.RallyAssertionError(f\"Track {self.track_name} specifies documents but no corpus\")\n\n")
_R5_FETCH = ("    def download_corpus_file(self, document_set, target):\n        try:\n            self.downloader.download(document_set.base_url, target.path, target.expected_size)\n"
             "        except exceptions.DataError as e:\n            if e.message == \"Cannot download data because no base URL is provided.\" and self.is_locally_available(target.path):\n"
             "                raise exceptions.DataError(f\"[{target.path}] is present but does not have the expected size of [{target.expected_size}] bytes.\") from None\n"
             "            raise\n\n")
_R5_CALL = "                self.download_corpus_file(document_set, self.download_target(document_set, doc_path, archive_path))\n"
_R5_INVALIDATE = "                self.invalidate_file_offset_table(doc_path)\n"


def _r5_download_helpers(kind, name, arm=_R5_CALL + _R5_INVALIDATE, target=_R5_TARGET, fetch=_R5_FETCH, record=_R5_RECORD):
    """benign/C14-b12: `download_target` chooses the file to fetch and returns it as a record, `download_corpus_file` downloads what the record names; the loop keeps the
    invalidation of the document file's table."""
    return [V(f"r5: the download extracted into two helpers, the target travels as a record{name}", kind, _L, _R5_DOWNLOAD_ARM, arm, "O3.10" if kind == "break" else None),
            V("", kind, _L, "from typing import Callable, Optional\n", "from typing import Callable, NamedTuple, Optional\n"),
            V("", kind, _L, _R3_DP, record + _R3_DP),
            V("", kind, _L, _R5_PDS, target + fetch + _R5_PDS)]


def _r3_module_level_invalidation(kind, body, rule=None):
    """the invalidation helper as a module-level function of the loader (body: its statements), called at the three (re)creation sites."""
    call = "_invalidate_file_offset_table(doc_path)"
    return [V(f"r3: table invalidation as a module-level function of the loader{'' if kind == 'keep' else ' - ' + rule[1]}", kind, _L, _R3_INV, "", rule[0] if rule else None),
            V("", kind, _L, _R3_DP, "def _invalidate_file_offset_table(document_file_path):\n" + body + "\n\n" + _R3_DP),
            V("", kind, _L, _R3_DECOMPRESS, _R3_DECOMPRESS.replace("self.invalidate_file_offset_table(doc_path)", call)),
            V("", kind, _L, _R3_DOWNLOAD, _R3_DOWNLOAD.replace("self.invalidate_file_offset_table(doc_path)", call)),
            V("", kind, _L, _R3_BUNDLED, _R3_BUNDLED.replace("self.invalidate_file_offset_table(doc_path)", call))]


_R3_BULK_CLASS = ("class IndexDataReader:\n", "@dataclass(frozen=True)\nclass Bulk:\n    docs: int\n    body: bytes = b\"\"\n    tags: list = field(default_factory=list)\n\n\nclass IndexDataReader:\n")

_S6_MM_LOOP = "            line = mm.readline()\n            if line == b\"\":\n                break\n            lines.append(line)\n"
_S6_HANDLER = "            logging.getLogger(__name__).exception(\"Could not read [%s]\", self.data_file)\n"

VARIANTS = [
    # O3.13 (seed m17): the file source's contract on values
    V("seed m17: the mmap reader stops at a line without a newline", "break", _I, "            if line == b\"\":\n", "            if not line.endswith(b\"\\n\"):\n", "O3.13"),
    V("O3.13: end-of-data test on the last byte", "break", _I, "            if line == b\"\":\n", "            if line[-1:] != b\"\\n\":\n", "O3.13"),
    V("O3.13: lines handed out without their newline", "break", _I, _S6_MM_LOOP, "            line = mm.readline()\n            if line == b\"\":\n                break\n            lines.append(line.rstrip())\n", "O3.13"),
    V("O3.13: one line fewer than asked for", "break", _I, "        mm = self.mm\n        for _ in range(num_lines):\n", "        mm = self.mm\n        for _ in range(num_lines - 1):\n", "O3.13"),
    V("O3.13: the empty result of the end of data is appended", "break", _I, _S6_MM_LOOP, "            line = mm.readline()\n            lines.append(line)\n            if line == b\"\":\n                break\n", "O3.13"),
    V("O3.13: end-of-data test as truth value", "keep", _I, "            if line == b\"\":\n", "            if not line:\n", "O3.13"),
    V("O3.13: while loop with a walrus, counted by the result", "keep", _I, "        for _ in range(num_lines):\n" + _S6_MM_LOOP,
      "        while len(lines) < num_lines and (line := mm.readline()):\n            lines.append(line)\n", "O3.13"),
    V("O3.13: end of data detected by the position in the mapped data", "keep", _I, _S6_MM_LOOP, "            if mm.tell() >= mm.size():\n                break\n            lines.append(mm.readline())\n", "O3.13"),
    # O3.14 (seed m18): a read error is not the end of the data
    V("seed m18: the OSError handler of the batch reader raises StopIteration", "break", _P, _S6_HANDLER, _S6_HANDLER + "            raise StopIteration() from None\n", "O3.14"),
    V("O3.14: read errors end the batch loop like the end of the slice", "break", _P, "                except StopIteration:\n                    break\n                if docs_in_bulk == 0:",
      "                except (StopIteration, OSError):\n                    break\n                if docs_in_bulk == 0:", "O3.14"),
    V("O3.14: the slice reader swallows the read error and reports its end", "break", _P, "        lines = self.source.readlines(min(self.bulk_size, self.number_of_lines - self.current_line))\n",
      "        try:\n            lines = self.source.readlines(min(self.bulk_size, self.number_of_lines - self.current_line))\n        except OSError:\n            lines = []\n", "O3.14"),
    V("O3.14: the handler re-raises after logging", "keep", _P, _S6_HANDLER, _S6_HANDLER + "            raise\n", "O3.14"),
    V("O3.14: the handler raises a data error", "keep", _P, _S6_HANDLER, _S6_HANDLER + "            raise exceptions.DataError(f\"Could not read [{self.data_file}]\") from None\n", "O3.14"),
    V("O3.14: no handler at all (the OSError reaches the driver)", "keep", _P, "        except OSError:\n" + _S6_HANDLER, "        except OSError:\n            raise\n", "O3.14"),
    # O3.12 (seed m13): one parameter source per task and worker
    [V("seed m13: parameter sources cached per operation", "break", _D, "            if task not in params_per_task:", "            if task.operation not in params_per_task:", "O3.12"),
     V("seed m13: parameter sources cached per operation", "break", _D, "                params_per_task[task] = param_source", "                params_per_task[task.operation] = param_source", "O3.12"),
     V("seed m13: parameter sources cached per operation", "break", _D, "            schedule = schedule_for(task_allocation, params_per_task[task])", "            schedule = schedule_for(task_allocation, params_per_task[task.operation])", "O3.12")],
    [V("O3.12: parameter sources cached per operation type", "break", _D, "            if task not in params_per_task:", "            if task.operation.type not in params_per_task:", "O3.12"),
     V("O3.12: parameter sources cached per operation type", "break", _D, "                params_per_task[task] = param_source", "                params_per_task[task.operation.type] = param_source", "O3.12"),
     V("O3.12: parameter sources cached per operation type", "break", _D, "            schedule = schedule_for(task_allocation, params_per_task[task])", "            schedule = schedule_for(task_allocation, params_per_task[task.operation.type])", "O3.12")],
    V("O3.12: one source for the whole worker", "break", _D, "            if task not in params_per_task:\n                param_source = track.operation_parameters(self.track, task)\n                params_per_task[task] = param_source\n            schedule = schedule_for(task_allocation, params_per_task[task])",
      "            if not params_per_task:\n                param_source = track.operation_parameters(self.track, task)\n                params_per_task[task] = param_source\n            schedule = schedule_for(task_allocation, param_source)", "O3.12"),
    V("O3.12: a parameter source per client (the group's bulk budget is gone)", "break", _D, "            if task not in params_per_task:", "            if client_id not in params_per_task:", "O3.12"),
    V("O3.12: cache read with .get() and a chained assignment", "keep", _D, "            if task not in params_per_task:\n                param_source = track.operation_parameters(self.track, task)\n                params_per_task[task] = param_source\n            schedule = schedule_for(task_allocation, params_per_task[task])",
      "            param_source = params_per_task.get(task)\n            if param_source is None:\n                param_source = params_per_task[task] = track.operation_parameters(self.track, task)\n            schedule = schedule_for(task_allocation, param_source)", "O3.12"),
    [V("O3.12: parameter sources cached per task NAME (unique within a challenge)", "keep", _D, "            if task not in params_per_task:", "            if task.name not in params_per_task:", "O3.12"),
     V("O3.12: parameter sources cached per task NAME (unique within a challenge)", "keep", _D, "                params_per_task[task] = param_source", "                params_per_task[task.name] = param_source", "O3.12"),
     V("O3.12: parameter sources cached per task NAME (unique within a challenge)", "keep", _D, "            schedule = schedule_for(task_allocation, params_per_task[task])", "            schedule = schedule_for(task_allocation, params_per_task[task.name])", "O3.12")],
    V("O3.12: the allocation record as a dataclass (benign C02-b8 / C05-b9 shape)", "keep", _D,
      "class TaskAllocation:\n    def __init__(self, task, client_index_in_task, global_client_index, total_clients):\n",
      "import dataclasses as _dc\n\n\n@_dc.dataclass(eq=False, repr=False)\nclass TaskAllocation:\n    task: object = None\n    client_index_in_task: int = 0\n    global_client_index: int = 0\n    total_clients: int = 0\n\n    def _unused_init(self, task, client_index_in_task, global_client_index, total_clients):\n", "O3.12"),
    V("O3.12: sources created in a first pass over the allocations", "keep", _D, "        params_per_task = {}\n        for client_id, task_allocation in self.task_allocations:\n            task = task_allocation.task\n            if task not in params_per_task:\n                param_source = track.operation_parameters(self.track, task)\n                params_per_task[task] = param_source\n",
      "        params_per_task = {}\n        for _, ta in self.task_allocations:\n            if ta.task not in params_per_task:\n                params_per_task[ta.task] = track.operation_parameters(self.track, ta.task)\n        for client_id, task_allocation in self.task_allocations:\n            task = task_allocation.task\n", "O3.12"),
    # O3.11 (seed m15): the skipper's contract on values
    V("seed m15: seek folded into `if remaining_lines > 0`", "break", _I, "    data_file.seek(offset)\n    # forward the last remaining lines if needed\n    if remaining_lines > 0:\n",
      "    if remaining_lines > 0:\n        data_file.seek(offset)\n", "O3.11"),
    V("O3.11: no seek on an exact table hit, spelled as a conditional offset", "break", _I, "    data_file.seek(offset)\n", "    data_file.seek(offset if remaining_lines else 0)\n", "O3.11"),
    V("O3.11: the table is asked for the line before the target", "break", _I, "            offset, remaining_lines = file_offset_table.find_closest_offset(number_of_lines_to_skip)",
      "            offset, remaining_lines = file_offset_table.find_closest_offset(number_of_lines_to_skip - 1)", "O3.11"),
    V("O3.11: early return also for a single line", "break", _I, "    if number_of_lines_to_skip == 0:\n        return\n\n    file_offset_table = FileOffsetTable.read_for_data_file(data_file_path)",
      "    if number_of_lines_to_skip <= 1:\n        return\n\n    file_offset_table = FileOffsetTable.read_for_data_file(data_file_path)", "O3.11"),
    V("O3.11: seek after the remaining lines were read", "break", _I, "    data_file.seek(offset)\n    # forward the last remaining lines if needed\n    if remaining_lines > 0:\n        for _ in range(remaining_lines):\n            data_file.readline()\n",
      "    if remaining_lines > 0:\n        for _ in range(remaining_lines):\n            data_file.readline()\n    data_file.seek(offset)\n", "O3.11"),
    V("O3.11: loop without the redundant `if`", "keep", _I, "    if remaining_lines > 0:\n        for _ in range(remaining_lines):\n            data_file.readline()\n",
      "    for _ in range(remaining_lines):\n        data_file.readline()\n", "O3.11"),
    [V("O3.11: early return respelled, table object used as its own context value", "keep", _I,
       "    if number_of_lines_to_skip == 0:\n        return\n\n    file_offset_table = FileOffsetTable.read_for_data_file(data_file_path)",
       "    if not number_of_lines_to_skip:\n        return None\n\n    file_offset_table = FileOffsetTable.read_for_data_file(data_file_path)", "O3.11"),
     V("O3.11: early return respelled, table object used as its own context value", "keep", _I,
       "        with file_offset_table:\n            offset, remaining_lines = file_offset_table.find_closest_offset(number_of_lines_to_skip)",
       "        with file_offset_table as table:\n            offset, remaining_lines = table.find_closest_offset(number_of_lines_to_skip)", "O3.11")],
    V("docs computed directly", "break", _P, "    docs = end_offset_docs - start_offset_docs", "    docs = round(docs_per_client * (end_client_index - start_client_index + 1))", "O3.1"),
    V("end rounds differently", "break", _P, "    end_offset_docs = round(docs_per_client * (end_client_index + 1))", "    end_offset_docs = int(docs_per_client * (end_client_index + 1))", "O3.1"),
    V("offset without k", "break", _P, "    offset_lines = start_offset_docs * source_lines_per_doc", "    offset_lines = start_offset_docs", "O3.1"),
    V("counter slices differently", "break", _P, "            _, num_docs, _ = bounds(\n                docs.number_of_documents, start_partition_index, end_partition_index, total_partitions, docs.includes_action_and_meta_data\n            )",
      "            _, num_docs, _ = bounds(\n                docs.number_of_documents, start_partition_index, start_partition_index, total_partitions, docs.includes_action_and_meta_data\n            )", "O3.2"),
    V("seed m2: counter gets the batch size", "break", _P, "        all_bulks = number_of_bulks(self.corpora, start_index, end_index, self.total_partitions, self.bulk_size)", "        all_bulks = number_of_bulks(self.corpora, start_index, end_index, self.total_partitions, self.batch_size)", "O3.2"),
    V("lines and docs swapped at the factory call", "break", _P, "                    docs, offset, num_lines, num_docs, batch_size, bulk_size, id_conflicts, conflict_probability, on_conflict, recency\n                )\n                reader_queue", "                    docs, offset, num_docs, num_lines, batch_size, bulk_size, id_conflicts, conflict_probability, on_conflict, recency\n                )\n                reader_queue", "O3.2"),
    V("read without the progress term", "break", _P, "        lines = self.source.readlines(min(self.bulk_size, self.number_of_lines - self.current_line))", "        lines = self.source.readlines(min(self.bulk_size, self.number_of_lines))", "O3.3"),
    V("progress never advanced", "break", _P, "        self.current_line += len(lines)\n        if len(lines) == 0:", "        if len(lines) == 0:", "O3.3"),
    V("source-only without * 2", "break", _P, "        super().__init__(data_file, batch_size, bulk_size * 2, file_source, index_name, type_name)", "        super().__init__(data_file, batch_size, bulk_size, file_source, index_name, type_name)", "O3.4"),
    V("fast path drops the action line for the first doc", "break", _P, "        for doc in docs:\n            current_bulk.append(action_metadata_line)\n            current_bulk.append(doc)\n        return len(docs), current_bulk", "        for doc in docs:\n            if current_bulk:\n                current_bulk.append(action_metadata_line)\n            current_bulk.append(doc)\n        return len(docs), current_bulk", "O3.4"),
    V("seed m3: randint upper bound inclusive", "break", _P, "                    idx = self.randint(0, self.id_up_to - 1)", "                    idx = self.randint(0, self.id_up_to)", "O3.6"),
    V("ids without the slice offset", "break", _P, "        all_ids[i] = \"%010d\" % (offset + i)", "        all_ids[i] = \"%010d\" % i", "O3.6"),
    V("floor for the percentage", "break", _P, "        self.total_bulks = math.ceil(fractions.Fraction(str(self.ingest_percentage)) * all_bulks / 100)",
      "        self.total_bulks = math.floor(fractions.Fraction(str(self.ingest_percentage)) * all_bulks / 100)", "O3.8"),
    # F27 (repaired by dffd3c1): the cut-off is computed exactly
    V("F27 reverted: cut-off in binary floating point", "break", _P, "        self.total_bulks = math.ceil(fractions.Fraction(str(self.ingest_percentage)) * all_bulks / 100)",
      "        self.total_bulks = math.ceil((all_bulks * self.ingest_percentage) / 100)", "O3.8"),
    V("F27: exact fraction of the float itself (not of the decimal the user wrote)", "break", _P, "        self.total_bulks = math.ceil(fractions.Fraction(str(self.ingest_percentage)) * all_bulks / 100)",
      "        self.total_bulks = math.ceil(fractions.Fraction(self.ingest_percentage) * all_bulks / 100)", "O3.8"),
    # F26 (repaired by 5186571): progress of a group without documents
    V("F26 reverted: progress divides by a total of 0 bulks", "break", _P, "        return self.current_bulk / self.total_bulks if self.total_bulks else 1.0", "        return self.current_bulk / self.total_bulks", "O3.8"),
    V("F26: guard tests the wrong counter", "break", _P, "        return self.current_bulk / self.total_bulks if self.total_bulks else 1.0", "        return self.current_bulk / self.total_bulks if self.current_bulk else 1.0", "O3.8"),
    # F25 (repaired by d8403e6): a (re)created document file never meets its predecessor's offset table
    V("F25 reverted: decompressed file keeps the old table", "break", _L,
      "                self.decompressor.decompress(archive_path, doc_path, document_set.uncompressed_size_in_bytes)\n                self.invalidate_file_offset_table(doc_path)\n",
      "                self.decompressor.decompress(archive_path, doc_path, document_set.uncompressed_size_in_bytes)\n", "O3.10"),
    V("F25 reverted: downloaded file keeps the old table", "break", _L,
      "                    self.downloader.download(document_set.base_url, target_path, expected_size)\n                    self.invalidate_file_offset_table(doc_path)\n",
      "                    self.downloader.download(document_set.base_url, target_path, expected_size)\n", "O3.10"),
    V("F25 reverted: bundled archive", "break", _L,
      "                    self.decompressor.decompress(archive_path, doc_path, document_set.uncompressed_size_in_bytes)\n                    self.invalidate_file_offset_table(doc_path)\n",
      "                    self.decompressor.decompress(archive_path, doc_path, document_set.uncompressed_size_in_bytes)\n", "O3.10"),
    V("F25: invalidation removes the table only when there is none", "break", _L, "        if os.path.exists(f\"{document_file_path}.offset\"):\n            io.remove_file_offset_table(document_file_path)",
      "        if not os.path.exists(f\"{document_file_path}.offset\"):\n            io.remove_file_offset_table(document_file_path)", "O3.10"),
    V("F25: invalidation looks for another file", "break", _L, "        if os.path.exists(f\"{document_file_path}.offset\"):\n            io.remove_file_offset_table(document_file_path)",
      "        if os.path.exists(f\"{document_file_path}.offsets\"):\n            io.remove_file_offset_table(document_file_path)", "O3.10"),
    V("F25: the archive's table is invalidated instead of the document's", "break", _L,
      "                self.decompressor.decompress(archive_path, doc_path, document_set.uncompressed_size_in_bytes)\n                self.invalidate_file_offset_table(doc_path)\n",
      "                self.decompressor.decompress(archive_path, doc_path, document_set.uncompressed_size_in_bytes)\n                self.invalidate_file_offset_table(archive_path)\n", "O3.10"),
    V("F25: remover deletes another file name", "break", _I, "        os.remove(f\"{data_file_path}.offset\")", "        os.remove(f\"{data_file_path}.offsets\")", "O3.10"),
    V("partial bulk not counted", "break", _P, "            if rest > 0:\n                bulks += 1\n    return bulks", "    return bulks", "O3.8"),
    V("seed m1: offsets accumulated from len(line)", "break", _I, "                        file_offset_table.add_offset(line_number, data_file.tell())", "                        file_offset_table.add_offset(line_number, sum(map(len, [line])))", "O3.7"),
    V("staggering skips the last corpus", "break", _P, "    reordered_corpora = corpora[start_corpora_id:] + corpora[:start_corpora_id]", "    reordered_corpora = corpora[start_corpora_id:]", "O3.9"),
    V("reader created but not counted", "break", _P, "                reader_queue.append(reader)\n                total_readers += 1", "                reader_queue.append(reader)", "O3.9"),
    V("small shares get no reader", "break", _P, "            if num_docs > 0:\n                reader: IndexDataReader = create_reader(", "            if num_docs > bulk_size:\n                reader: IndexDataReader = create_reader(", "O3.9"),
    # preserving
    V("remaining local", "keep", _P, "        lines = self.source.readlines(min(self.bulk_size, self.number_of_lines - self.current_line))", "        remaining = self.number_of_lines - self.current_line\n        lines = self.source.readlines(min(self.bulk_size, remaining))"),
    V("k * docs", "keep", _P, "    lines = docs * source_lines_per_doc", "    lines = source_lines_per_doc * docs"),
    V("F27 respelled: share computed first", "keep", _P, "        self.total_bulks = math.ceil(fractions.Fraction(str(self.ingest_percentage)) * all_bulks / 100)",
      "        share = fractions.Fraction(str(self.ingest_percentage)) / 100\n        self.total_bulks = math.ceil(all_bulks * share)"),
    V("F27 respelled: ceiling as negated floor division of exact operands", "keep", _P, "        self.total_bulks = math.ceil(fractions.Fraction(str(self.ingest_percentage)) * all_bulks / 100)",
      "        self.total_bulks = -((-all_bulks * fractions.Fraction(repr(self.ingest_percentage))) // 100)"),
    V("F27 respelled: full ingest short-cut", "keep", _P, "        self.total_bulks = math.ceil(fractions.Fraction(str(self.ingest_percentage)) * all_bulks / 100)",
      "        if self.ingest_percentage == 100:\n            self.total_bulks = all_bulks\n        else:\n            self.total_bulks = math.ceil(fractions.Fraction(str(self.ingest_percentage)) * all_bulks / 100)"),
    V("F26 respelled: guard clause", "keep", _P, "        return self.current_bulk / self.total_bulks if self.total_bulks else 1.0",
      "        if self.total_bulks == 0:\n            return 1.0\n        return self.current_bulk / self.total_bulks"),
    V("F26 respelled: exception handler", "keep", _P, "        return self.current_bulk / self.total_bulks if self.total_bulks else 1.0",
      "        try:\n            return self.current_bulk / self.total_bulks\n        except ZeroDivisionError:\n            return 1.0"),
    V("F26 respelled: positive-total test, other arm order", "keep", _P, "        return self.current_bulk / self.total_bulks if self.total_bulks else 1.0",
      "        return 1.0 if self.total_bulks <= 0 else self.current_bulk / self.total_bulks"),
    V("F25 respelled: helper inlined at the call", "keep", _L,
      "                self.decompressor.decompress(archive_path, doc_path, document_set.uncompressed_size_in_bytes)\n                self.invalidate_file_offset_table(doc_path)\n",
      "                self.decompressor.decompress(archive_path, doc_path, document_set.uncompressed_size_in_bytes)\n                if os.path.isfile(doc_path + \".offset\"):\n"
      "                    io.remove_file_offset_table(doc_path)\n"),
    V("F25 respelled: table removed before the archive is unpacked", "keep", _L,
      "                    self.decompressor.decompress(archive_path, doc_path, document_set.uncompressed_size_in_bytes)\n                    self.invalidate_file_offset_table(doc_path)\n",
      "                    self.invalidate_file_offset_table(doc_path)\n                    self.decompressor.decompress(archive_path, doc_path, document_set.uncompressed_size_in_bytes)\n"),
    V("F25 respelled: helper with a local and a log line", "keep", _L,
      "        if os.path.exists(f\"{document_file_path}.offset\"):\n            io.remove_file_offset_table(document_file_path)",
      "        table = \"%s.offset\" % document_file_path\n        if os.path.exists(f\"{document_file_path}.offset\"):\n            logging.getLogger(__name__).info(\"Removing [%s].\", table)\n"
      "            io.remove_file_offset_table(document_file_path)"),
    V("ceil written with math.ceil", "keep", _P, "            complete_bulks, rest = (num_docs // bulk_size, num_docs % bulk_size)\n            bulks += complete_bulks\n            if rest > 0:\n                bulks += 1", "            bulks += math.ceil(num_docs / bulk_size)"),
    # ---- hardening round 2: realistic refactorings (helpers, renamed attributes, other idioms). The structural recognisers do not know these shapes; the clauses are decided by the
    # value runs of the pipeline - and the same shapes WITH a defect must still be reported
    V("r2: progress attribute of the slice renamed", "keep", _P, "self.current_line", "self.lines_read", count=4),
    V("r2: progress attribute renamed, advanced by one per read instead of by the lines read", "break", _P, r"self\.current_line \+= len\(lines\)|self\.current_line", 
      lambda m: "self.lines_read += 1" if "+=" in m.group(0) else "self.lines_read", "O3.3", count=4, regex=True),
    V("r2: rounding of a client boundary extracted into a helper", "keep", _P,
      "    start_offset_docs = round(docs_per_client * start_client_index)\n    end_offset_docs = round(docs_per_client * (end_client_index + 1))\n",
      "    def first_doc_of(client_index):\n        return round(docs_per_client * client_index)\n\n    start_offset_docs = first_doc_of(start_client_index)\n    end_offset_docs = first_doc_of(end_client_index + 1)\n"),
    V("r2: boundary helper, end computed from the share instead of from the next client's boundary", "break", _P,
      "    start_offset_docs = round(docs_per_client * start_client_index)\n    end_offset_docs = round(docs_per_client * (end_client_index + 1))\n",
      "    def first_doc_of(client_index):\n        return round(docs_per_client * client_index)\n\n    start_offset_docs = first_doc_of(start_client_index)\n    end_offset_docs = start_offset_docs + first_doc_of(end_client_index - start_client_index + 1)\n", "O3.1"),
    V("r2: batch loop as `while True` with a break", "keep", _P, "            while docs_in_batch < self.batch_size:\n                try:",
      "            while True:\n                if docs_in_batch >= self.batch_size:\n                    break\n                try:"),
    V("r2: fast path builds the bulk with extend()", "keep", _P, "        for doc in docs:\n            current_bulk.append(action_metadata_line)\n            current_bulk.append(doc)\n        return len(docs), current_bulk",
      "        for doc in docs:\n            current_bulk.extend((action_metadata_line, doc))\n        return len(docs), current_bulk"),
    V("r2: fast path with extend(), document before its action line", "break", _P, "        for doc in docs:\n            current_bulk.append(action_metadata_line)\n            current_bulk.append(doc)\n        return len(docs), current_bulk",
      "        for doc in docs:\n            current_bulk.extend((doc, action_metadata_line))\n        return len(docs), current_bulk", "O3.4"),
    V("r2: fast path as a comprehension", "keep", _P, "        for doc in docs:\n            current_bulk.append(action_metadata_line)\n            current_bulk.append(doc)\n        return len(docs), current_bulk",
      "        current_bulk = [line for doc in docs for line in (action_metadata_line, doc)]\n        return len(docs), current_bulk"),
    V("r2: cut-off and reader creation in helper methods, counters renamed", "keep", _P,
      "        all_bulks = number_of_bulks(self.corpora, start_index, end_index, self.total_partitions, self.bulk_size)\n"
      "        # exact arithmetic: in binary floating point e.g. 1500 * 2.2 / 100 is slightly more than 33 and would be rounded up to 34\n"
      "        self.total_bulks = math.ceil(fractions.Fraction(str(self.ingest_percentage)) * all_bulks / 100)\n",
      "        self.total_bulks = self._bulks_to_ingest(start_index, end_index)\n\n"
      "    def _bulks_to_ingest(self, first_client, last_client):\n"
      "        available = number_of_bulks(self.corpora, first_client, last_client, self.total_partitions, self.bulk_size)\n"
      "        return math.ceil(fractions.Fraction(str(self.ingest_percentage)) * available / 100)\n"),
    V("r2: cut-off helper counts with the batch size", "break", _P,
      "        all_bulks = number_of_bulks(self.corpora, start_index, end_index, self.total_partitions, self.bulk_size)\n"
      "        # exact arithmetic: in binary floating point e.g. 1500 * 2.2 / 100 is slightly more than 33 and would be rounded up to 34\n"
      "        self.total_bulks = math.ceil(fractions.Fraction(str(self.ingest_percentage)) * all_bulks / 100)\n",
      "        self.total_bulks = self._bulks_to_ingest(start_index, end_index)\n\n"
      "    def _bulks_to_ingest(self, first_client, last_client):\n"
      "        available = number_of_bulks(self.corpora, first_client, last_client, self.total_partitions, self.batch_size)\n"
      "        return math.ceil(fractions.Fraction(str(self.ingest_percentage)) * available / 100)\n", "O3"),
    V("r2: cut-off helper in binary floating point", "break", _P,
      "        all_bulks = number_of_bulks(self.corpora, start_index, end_index, self.total_partitions, self.bulk_size)\n"
      "        # exact arithmetic: in binary floating point e.g. 1500 * 2.2 / 100 is slightly more than 33 and would be rounded up to 34\n"
      "        self.total_bulks = math.ceil(fractions.Fraction(str(self.ingest_percentage)) * all_bulks / 100)\n",
      "        self.total_bulks = self._bulks_to_ingest(start_index, end_index)\n\n"
      "    def _bulks_to_ingest(self, first_client, last_client):\n"
      "        available = number_of_bulks(self.corpora, first_client, last_client, self.total_partitions, self.bulk_size)\n"
      "        return math.ceil(available * self.ingest_percentage / 100)\n", "O3.8"),
    V("r2: bulk counter as a sum over a generator with a ceiling helper", "keep", _P,
      "    bulks = 0\n    for corpus in corpora:\n        for docs in corpus.documents:\n            _, num_docs, _ = bounds(\n                docs.number_of_documents, start_partition_index, end_partition_index, total_partitions, docs.includes_action_and_meta_data\n            )\n"
      "            complete_bulks, rest = (num_docs // bulk_size, num_docs % bulk_size)\n            bulks += complete_bulks\n            if rest > 0:\n                bulks += 1\n    return bulks\n",
      "    def share(docs):\n        return bounds(docs.number_of_documents, start_partition_index, end_partition_index, total_partitions, docs.includes_action_and_meta_data)[1]\n\n"
      "    return sum(-(-share(docs) // bulk_size) for corpus in corpora for docs in corpus.documents)\n"),
    V("r2: bulk counter as a sum, partial bulk not counted", "break", _P,
      "    bulks = 0\n    for corpus in corpora:\n        for docs in corpus.documents:\n            _, num_docs, _ = bounds(\n                docs.number_of_documents, start_partition_index, end_partition_index, total_partitions, docs.includes_action_and_meta_data\n            )\n"
      "            complete_bulks, rest = (num_docs // bulk_size, num_docs % bulk_size)\n            bulks += complete_bulks\n            if rest > 0:\n                bulks += 1\n    return bulks\n",
      "    def share(docs):\n        return bounds(docs.number_of_documents, start_partition_index, end_partition_index, total_partitions, docs.includes_action_and_meta_data)[1]\n\n"
      "    return sum(share(docs) // bulk_size for corpus in corpora for docs in corpus.documents)\n", "O3.8"),
    [V("r2: conflict index chosen by a helper method", "keep", _P,
       "                if self.recency == 0:\n                    idx = self.randint(0, self.id_up_to - 1)\n                else:",
       "                if self.recency == 0:\n                    idx = self._any_emitted()\n                else:"),
     V("", "keep", _P, "    def __iter__(self):\n        return self\n\n    def __next__(self):\n        if self.conflicting_ids is not None:",
       "    def _any_emitted(self):\n        return self.randint(0, self.id_up_to - 1)\n\n    def __iter__(self):\n        return self\n\n    def __next__(self):\n        if self.conflicting_ids is not None:")],
    [V("r2: conflict index helper, inclusive upper bound", "break", _P,
       "                if self.recency == 0:\n                    idx = self.randint(0, self.id_up_to - 1)\n                else:",
       "                if self.recency == 0:\n                    idx = self._any_emitted()\n                else:", "O3.6"),
     V("", "break", _P, "    def __iter__(self):\n        return self\n\n    def __next__(self):\n        if self.conflicting_ids is not None:",
       "    def _any_emitted(self):\n        return self.randint(0, self.id_up_to)\n\n    def __iter__(self):\n        return self\n\n    def __next__(self):\n        if self.conflicting_ids is not None:")],
    V("r2: counters of the partition source renamed", "keep", _P, r"self\.total_bulks|self\.current_bulk", lambda m: "self.bulks_to_ingest" if "total" in m.group(0) else "self.bulks_handed_out", count=11, regex=True),
    V("r2: chain() skips absent readers with continue", "keep", _P, "    for it in filter(lambda x: x is not None, iterables):\n        # execute within a context\n        with it:\n            yield from it",
      "    for it in iterables:\n        if it is None:\n            continue\n        with it:\n            for item in it:\n                yield item"),
    V("r2: chain() without the context (files never opened)", "break", _P, "    for it in filter(lambda x: x is not None, iterables):\n        # execute within a context\n        with it:\n            yield from it",
      "    for it in iterables:\n        if it is None:\n            continue\n        for item in it:\n            yield item", "O3.9"),
    V("r2: bulk params merged in one expression", "keep", _P, "            params = original_params.copy()\n            params.update(bulk_params)\n            yield params", "            yield {**original_params, **bulk_params}"),
    V("r2: source-only reader halves with a division", "keep", _P, "        return len(bulk_items) // 2, bulk_items", "        return int(len(bulk_items) / 2), bulk_items"),
    V("r2: source-only reader reports lines as documents", "break", _P, "        return len(bulk_items) // 2, bulk_items", "        return len(bulk_items), bulk_items", "O3"),
    V("r2: reader queues built by a comprehension, staggering by index", "keep", _P,
      "    while total_readers > 0:\n        for reader_queue in corpora_readers:\n            # Since corpora don't necessarily contain the same number of documents, we\n            # ignore already consumed queues\n"
      "            if reader_queue:\n                staggered_readers.append(reader_queue.popleft())\n                total_readers -= 1\n    return staggered_readers",
      "    longest = max((len(q) for q in corpora_readers), default=0)\n    for position in range(longest):\n        staggered_readers.extend(q[position] for q in corpora_readers if position < len(q))\n    return staggered_readers"),
    V("r2: staggering by index stops at the shortest queue", "break", _P,
      "    while total_readers > 0:\n        for reader_queue in corpora_readers:\n            # Since corpora don't necessarily contain the same number of documents, we\n            # ignore already consumed queues\n"
      "            if reader_queue:\n                staggered_readers.append(reader_queue.popleft())\n                total_readers -= 1\n    return staggered_readers",
      "    shortest = min((len(q) for q in corpora_readers), default=0)\n    for position in range(shortest):\n        staggered_readers.extend(q[position] for q in corpora_readers if position < len(q))\n    return staggered_readers", "O3.9"),
    [V("r2: decompression and table invalidation extracted into one helper", "keep", _L,
       "                self.decompressor.decompress(archive_path, doc_path, document_set.uncompressed_size_in_bytes)\n                self.invalidate_file_offset_table(doc_path)\n",
       "                self._unpack(archive_path, doc_path, document_set.uncompressed_size_in_bytes)\n"),
     V("", "keep", _L,
       "                    self.decompressor.decompress(archive_path, doc_path, document_set.uncompressed_size_in_bytes)\n                    self.invalidate_file_offset_table(doc_path)\n",
       "                    self._unpack(archive_path, doc_path, document_set.uncompressed_size_in_bytes)\n"),
     V("", "keep", _L, "    def create_file_offset_table(self, document_file_path, expected_number_of_lines):",
       "    def _unpack(self, archive, document_file_path, expected_size):\n        self.decompressor.decompress(archive, document_file_path, expected_size)\n        self.invalidate_file_offset_table(document_file_path)\n\n    def create_file_offset_table(self, document_file_path, expected_number_of_lines):")],
    [V("r2: extracted decompression helper forgets the table", "break", _L,
       "                self.decompressor.decompress(archive_path, doc_path, document_set.uncompressed_size_in_bytes)\n                self.invalidate_file_offset_table(doc_path)\n",
       "                self._unpack(archive_path, doc_path, document_set.uncompressed_size_in_bytes)\n", "O3.10"),
     V("", "break", _L,
       "                    self.decompressor.decompress(archive_path, doc_path, document_set.uncompressed_size_in_bytes)\n                    self.invalidate_file_offset_table(doc_path)\n",
       "                    self._unpack(archive_path, doc_path, document_set.uncompressed_size_in_bytes)\n"),
     V("", "break", _L, "    def create_file_offset_table(self, document_file_path, expected_number_of_lines):",
       "    def _unpack(self, archive, document_file_path, expected_size):\n        self.decompressor.decompress(archive, document_file_path, expected_size)\n\n    def create_file_offset_table(self, document_file_path, expected_number_of_lines):")],
    [V("r2: extracted decompression helper invalidates the archive's table", "break", _L,
       "                self.decompressor.decompress(archive_path, doc_path, document_set.uncompressed_size_in_bytes)\n                self.invalidate_file_offset_table(doc_path)\n",
       "                self._unpack(archive_path, doc_path, document_set.uncompressed_size_in_bytes)\n", "O3.10"),
     V("", "break", _L,
       "                    self.decompressor.decompress(archive_path, doc_path, document_set.uncompressed_size_in_bytes)\n                    self.invalidate_file_offset_table(doc_path)\n",
       "                    self._unpack(archive_path, doc_path, document_set.uncompressed_size_in_bytes)\n"),
     V("", "break", _L, "    def create_file_offset_table(self, document_file_path, expected_number_of_lines):",
       "    def _unpack(self, archive, document_file_path, expected_size):\n        self.decompressor.decompress(archive, document_file_path, expected_size)\n        self.invalidate_file_offset_table(archive)\n\n    def create_file_offset_table(self, document_file_path, expected_number_of_lines):")],
    V("r2: line limit of the slice renamed (attribute and constructor parameter)", "keep", _P, "number_of_lines", "line_limit", count=7),
    [V("r2: batch reading extracted into a helper method, batch size tested on the bulks read", "keep", _P,
       "        batch = []\n        try:\n            docs_in_batch = 0\n            while docs_in_batch < self.batch_size:\n                try:\n                    docs_in_bulk, bulk = self.read_bulk()\n"
       "                except StopIteration:\n                    break\n                if docs_in_bulk == 0:\n                    break\n                docs_in_batch += docs_in_bulk\n"
       "                batch.append((docs_in_bulk, b\"\".join(bulk)))\n            if docs_in_batch == 0:\n                raise StopIteration()\n            return self.index_name, self.type_name, batch\n",
       "        try:\n            batch = self._read_batch()\n            if not batch:\n                raise StopIteration()\n            return self.index_name, self.type_name, batch\n"),
     V("", "keep", _P, "    def __exit__(self, exc_type, exc_val, exc_tb):\n        self.file_source.close()\n        return False\n",
       "    def _read_batch(self):\n        batch = []\n        while sum(docs for docs, _ in batch) < self.batch_size:\n            try:\n                docs_in_bulk, bulk = self.read_bulk()\n"
       "            except StopIteration:\n                break\n            if docs_in_bulk == 0:\n                break\n            batch.append((docs_in_bulk, b\"\".join(bulk)))\n        return batch\n\n"
       "    def __exit__(self, exc_type, exc_val, exc_tb):\n        self.file_source.close()\n        return False\n")],
    [V("r2: batch helper discards the bulk that fills the batch", "break", _P,
       "        batch = []\n        try:\n            docs_in_batch = 0\n            while docs_in_batch < self.batch_size:\n                try:\n                    docs_in_bulk, bulk = self.read_bulk()\n"
       "                except StopIteration:\n                    break\n                if docs_in_bulk == 0:\n                    break\n                docs_in_batch += docs_in_bulk\n"
       "                batch.append((docs_in_bulk, b\"\".join(bulk)))\n            if docs_in_batch == 0:\n                raise StopIteration()\n            return self.index_name, self.type_name, batch\n",
       "        try:\n            batch = self._read_batch()\n            if not batch:\n                raise StopIteration()\n            return self.index_name, self.type_name, batch\n", "O3"),
     V("", "break", _P, "    def __exit__(self, exc_type, exc_val, exc_tb):\n        self.file_source.close()\n        return False\n",
       "    def _read_batch(self):\n        batch = []\n        while sum(docs for docs, _ in batch) < self.batch_size:\n            try:\n                docs_in_bulk, bulk = self.read_bulk()\n"
       "            except StopIteration:\n                break\n            if docs_in_bulk == 0 or sum(docs for docs, _ in batch) + docs_in_bulk >= self.batch_size:\n                break\n            batch.append((docs_in_bulk, b\"\".join(bulk)))\n        return batch\n\n"
       "    def __exit__(self, exc_type, exc_val, exc_tb):\n        self.file_source.close()\n        return False\n")],
    V("r2: read_bulk as a dispatching method instead of a re-bound attribute", "keep", _P,
      "            _, self.action_metadata_line = next(self.action_metadata)\n            self.read_bulk = self._read_bulk_fast\n        else:\n            self.read_bulk = self._read_bulk_regular\n        return self\n",
      "            _, self.action_metadata_line = next(self.action_metadata)\n        return self\n\n    def read_bulk(self):\n        return self._read_bulk_fast() if self.action_metadata.is_constant else self._read_bulk_regular()\n"),
    V("r2: action lines chosen from a table", "keep", _P,
      "            if action == \"index\":\n                return \"index\", self.meta_data_index_with_id % doc_id\n            elif action == \"update\":\n                return \"update\", self.meta_data_update_with_id % doc_id\n"
      "            else:\n                raise exceptions.RallyAssertionError(f\"Unknown action [{action}]\")\n",
      "            templates = {\"index\": self.meta_data_index_with_id, \"update\": self.meta_data_update_with_id}\n            if action not in templates:\n"
      "                raise exceptions.RallyAssertionError(f\"Unknown action [{action}]\")\n            return action, templates[action] % doc_id\n"),
    V("r2: additive counter and log line in the slice reader", "keep", _P, "        self.current_line += len(lines)\n        if len(lines) == 0:",
      "        self.current_line += len(lines)\n        self.logger.debug(\"Read [%d] lines of %s.\", len(lines), self)\n        if len(lines) == 0:"),
    # ---- hardening round 3: record types (typing.NamedTuple / collections.namedtuple / @dataclass) where a bare tuple was. The recognisers read a record construction in FIELD order
    # and a field / index selection as the position it stands for; the evaluator instantiates the record classes of the module
    [V("r3: bounds() returns a named tuple built by keyword, the counter reads its field", "keep", _P, *_R3_IMPORT),
     V("", "keep", _P, _R3_BOUNDS_DEF, _R3_RECORD + _R3_BOUNDS_DEF), V("", "keep", _P, *_R3_RETURN), V("", "keep", _P, _R3_COUNTER, _R3_COUNTER_FIELD % "docs")],
    [V("r3: named tuple declares lines before docs - positional consumers take the line count for the document count", "break", _P, *_R3_IMPORT, "O3"),
     V("", "break", _P, _R3_BOUNDS_DEF, _R3_RECORD_SWAPPED + _R3_BOUNDS_DEF), V("", "break", _P, *_R3_RETURN), V("", "break", _P, _R3_COUNTER, _R3_COUNTER_FIELD % "docs")],
    [V("r3: named tuple, the counter reads the line count instead of the document count", "break", _P, *_R3_IMPORT, "O3"),
     V("", "break", _P, _R3_BOUNDS_DEF, _R3_RECORD + _R3_BOUNDS_DEF), V("", "break", _P, *_R3_RETURN), V("", "break", _P, _R3_COUNTER, _R3_COUNTER_FIELD % "lines")],
    [V("r3: named tuple, telescoping broken inside the keyword construction (docs computed directly)", "break", _P, *_R3_IMPORT, "O3.1"),
     V("", "break", _P, _R3_BOUNDS_DEF, _R3_RECORD + _R3_BOUNDS_DEF),
     V("", "break", _P, _R3_RETURN[0], _R3_RETURN[1].replace("    docs = end_offset_docs - start_offset_docs\n", "    docs = round(docs_per_client * (end_client_index - start_client_index + 1))\n"))],
    [V("r3: the reader factory keeps the record and reads its fields by name", "keep", _P, *_R3_IMPORT),
     V("", "keep", _P, _R3_BOUNDS_DEF, _R3_RECORD + _R3_BOUNDS_DEF), V("", "keep", _P, *_R3_RETURN), V("", "keep", _P, _R3_FACTORY, _R3_FACTORY_RECORD % ("lines", "docs"))],
    [V("r3: the reader factory reads the fields of the record in the wrong roles (documents as line limit)", "break", _P, *_R3_IMPORT, "O3"),
     V("", "break", _P, _R3_BOUNDS_DEF, _R3_RECORD + _R3_BOUNDS_DEF), V("", "break", _P, *_R3_RETURN), V("", "break", _P, _R3_FACTORY, _R3_FACTORY_RECORD % ("docs", "lines"))],
    [V("r3: collections.namedtuple for the slice, counter selects by index", "keep", _P, _R3_BOUNDS_DEF, "ClientBounds = collections.namedtuple(\"ClientBounds\", [\"offset_lines\", \"docs\", \"lines\"])\n\n\n" + _R3_BOUNDS_DEF),
     V("", "keep", _P, "    return offset_lines, docs, lines\n", "    return ClientBounds(offset_lines, docs, lines)\n"), V("", "keep", _P, _R3_COUNTER, _R3_COUNTER_FIELD.replace(".%s", "[1]"))],
    [V("r3: collections.namedtuple for the slice, counter selects the wrong index", "break", _P, _R3_BOUNDS_DEF, "ClientBounds = collections.namedtuple(\"ClientBounds\", [\"offset_lines\", \"docs\", \"lines\"])\n\n\n" + _R3_BOUNDS_DEF, "O3"),
     V("", "break", _P, "    return offset_lines, docs, lines\n", "    return ClientBounds(offset_lines, docs, lines)\n"), V("", "break", _P, _R3_COUNTER, _R3_COUNTER_FIELD.replace(".%s", "[-1]"))],
    [V("r3: bulks of a batch as frozen dataclass records (default, default factory) instead of pairs", "keep", _P, *_R3_DATACLASS), V("", "keep", _P, *_R3_BULK_CLASS),
     V("", "keep", _P, _R3_BATCH_APPEND, "                batch.append(Bulk(docs_in_bulk, body=b\"\".join(bulk)))\n"), V("", "keep", _P, _R3_BULK_LOOP[0], "        for bulk in batch:\n"),
     V("", "keep", _P, _R3_BULK_LOOP[1], "                \"body\": bulk.body,\n"), V("", "keep", _P, _R3_BULK_LOOP[2], "                \"bulk-size\": bulk.docs,\n")],
    # O3.10 re-stated: 'no table of this file' is established along edges (removal statements, the absent-branch of an EVALUATED existence test, helpers - methods or module-level
    # functions - that establish it on all their normal paths); names compared as values; renamed io functions found by role
    _r3_module_level_invalidation("keep", "    if os.path.exists(f\"{document_file_path}.offset\"):\n        io.remove_file_offset_table(document_file_path)\n"),
    _r3_module_level_invalidation("break", "    if os.path.exists(f\"{document_file_path}.offsets\"):\n        io.remove_file_offset_table(document_file_path)\n", ("O3.10", "it looks for another file")),
    _r3_module_level_invalidation("break", "    logging.getLogger(__name__).info(\"[%s] was (re)created.\", document_file_path)\n", ("O3.10", "it only logs")),
    V("r3: invalidation helper with a guard clause", "keep", _L, _R3_INV, _R3_INV_HEAD + "        if not os.path.exists(f\"{document_file_path}.offset\"):\n            return\n        io.remove_file_offset_table(document_file_path)\n"),
    V("r3: invalidation helper with an inverted guard clause (returns when the table exists)", "break", _L, _R3_INV,
      _R3_INV_HEAD + "        if os.path.exists(f\"{document_file_path}.offset\"):\n            return\n        io.remove_file_offset_table(document_file_path)\n", "O3.10"),
    V("r3: invalidation helper with a hoisted test and a log line", "keep", _L, _R3_INV,
      _R3_INV_HEAD + "        stale = os.path.exists(f\"{document_file_path}.offset\")\n        if stale:\n            logging.getLogger(__name__).info(\"Removing the stale offset table of [%s].\", document_file_path)\n"
      "            io.remove_file_offset_table(document_file_path)\n"),
    V("r3: invalidation helper asks the table object whether it exists", "keep", _L, _R3_INV,
      _R3_INV_HEAD + "        if io.FileOffsetTable.read_for_data_file(document_file_path).exists():\n            io.remove_file_offset_table(document_file_path)\n"),
    V("r3: invalidation helper asks whether the DATA file exists", "break", _L, _R3_INV,
      _R3_INV_HEAD + "        if not os.path.exists(document_file_path):\n            io.remove_file_offset_table(document_file_path)\n", "O3.10"),
    V("r3: invalidation helper removes without asking, a missing table is not an error", "keep", _L, _R3_INV,
      _R3_INV_HEAD + "        try:\n            io.remove_file_offset_table(document_file_path)\n        except FileNotFoundError:\n            pass\n"),
    V("r3: decompression target held in a second local", "keep", _L, _R3_DECOMPRESS,
      "                extracted_path = doc_path\n                self.decompressor.decompress(archive_path, extracted_path, document_set.uncompressed_size_in_bytes)\n                self.invalidate_file_offset_table(extracted_path)\n"),
    V("r3: after a download the table of the download target is invalidated (the document file when it was the target)", "keep", _L, _R3_DOWNLOAD,
      "                    self.downloader.download(document_set.base_url, target_path, expected_size)\n                    self.invalidate_file_offset_table(target_path)\n"),
    V("r3: after a download the archive's table is invalidated whatever the target was", "break", _L, _R3_DOWNLOAD,
      "                    self.downloader.download(document_set.base_url, target_path, expected_size)\n                    self.invalidate_file_offset_table(archive_path)\n", "O3.10"),
    [V("r3: the io module's remover renamed", "keep", _I, "def remove_file_offset_table(data_file_path: str) -> None:", "def drop_file_offset_table(data_file_path: str) -> None:"),
     V("", "keep", _L, "io.remove_file_offset_table(document_file_path)", "io.drop_file_offset_table(document_file_path)", count=2)],
    [V("r3: the io module's remover renamed and deleting another file name", "break", _I, "def remove_file_offset_table(data_file_path: str) -> None:", "def drop_file_offset_table(data_file_path: str) -> None:", "O3.10"),
     V("", "break", _L, "io.remove_file_offset_table(document_file_path)", "io.drop_file_offset_table(document_file_path)", count=2),
     V("", "break", _I, "        os.remove(f\"{data_file_path}.offset\")", "        os.remove(f\"{data_file_path}.offsets\")")],
    # idioms the evaluator has to follow when the recognisers do not know the shape
    V("r3: bulk params merged with the dict union operator", "keep", _P, "            params = original_params.copy()\n            params.update(bulk_params)\n            yield params", "            yield original_params | bulk_params"),
    [V("r3: fast path interleaves with itertools (chain.from_iterable / zip / repeat)", "keep", _P, "import inspect\n", "import inspect\nimport itertools\n"),
     V("", "keep", _P, "        for doc in docs:\n            current_bulk.append(action_metadata_line)\n            current_bulk.append(doc)\n        return len(docs), current_bulk",
       "        current_bulk = list(itertools.chain.from_iterable(zip(itertools.repeat(action_metadata_line), docs)))\n        return len(docs), current_bulk")],
    [V("r3: fast path interleaves with itertools, document before its action line", "break", _P, "import inspect\n", "import inspect\nimport itertools\n", "O3.4"),
     V("", "break", _P, "        for doc in docs:\n            current_bulk.append(action_metadata_line)\n            current_bulk.append(doc)\n        return len(docs), current_bulk",
       "        current_bulk = list(itertools.chain.from_iterable(zip(docs, itertools.repeat(action_metadata_line))))\n        return len(docs), current_bulk")],
    [V("r3: enumeration values by auto()", "keep", _P, "from enum import Enum\n", "from enum import Enum, auto\n"),
     V("", "keep", _P, "    NoConflicts = 0\n    SequentialConflicts = 1\n    RandomConflicts = 2\n", "    NoConflicts = auto()\n    SequentialConflicts = auto()\n    RandomConflicts = auto()\n")],
    [V("r3: batch loop swallows StopIteration with contextlib.suppress, typing.cast around the read", "keep", _P, "from typing import Callable, Deque\n", "import contextlib\nfrom typing import Callable, Deque, cast\n"),
     V("", "keep", _P, "                try:\n                    docs_in_bulk, bulk = self.read_bulk()\n                except StopIteration:\n                    break\n                if docs_in_bulk == 0:\n                    break\n",
       "                docs_in_bulk = 0\n                with contextlib.suppress(StopIteration):\n                    docs_in_bulk, bulk = cast(\"tuple[int, list]\", self.read_bulk())\n                if docs_in_bulk == 0:\n                    break\n")],
    [V("r3: batch loop with contextlib.suppress that does not reset the count (at the end of the slice it meets an unbound or stale count)", "break", _P, "from typing import Callable, Deque\n", "import contextlib\nfrom typing import Callable, Deque, cast\n", "O3"),
     V("", "break", _P, "                try:\n                    docs_in_bulk, bulk = self.read_bulk()\n                except StopIteration:\n                    break\n                if docs_in_bulk == 0:\n                    break\n",
       "                with contextlib.suppress(StopIteration):\n                    docs_in_bulk, bulk = cast(\"tuple[int, list]\", self.read_bulk())\n                if docs_in_bulk == 0:\n                    break\n")],
    [V("r3: dataclass records for the bulks, the record counts lines instead of documents", "break", _P, *_R3_DATACLASS, "O3"), V("", "break", _P, *_R3_BULK_CLASS),
     V("", "break", _P, _R3_BATCH_APPEND, "                batch.append(Bulk(len(bulk), body=b\"\".join(bulk)))\n"), V("", "break", _P, _R3_BULK_LOOP[0], "        for bulk in batch:\n"),
     V("", "break", _P, _R3_BULK_LOOP[1], "                \"body\": bulk.body,\n"), V("", "break", _P, _R3_BULK_LOOP[2], "                \"bulk-size\": bulk.docs,\n")],
    # ---- hardening round 4 (benign/C14-b10, C03-b11) --------------------------------------------------------------------------------------------------------------
    # O3.10 re-stated: the remover is whatever io callable (function, static / class method, through the module alias) the loader calls that deletes the table's file; what a call of
    # it does to the table is decided by RUNNING it in the rule's file system (table present / absent), whatever options it takes
    _r4_inlined_remover("keep", ""),
    _r4_inlined_remover("keep", ", path by keyword, plain existence test", "os.path.exists(f\"{document_file_path}.offset\")", "io.FileOffsetTable.remove(data_file_path=document_file_path)"),
    _r4_inlined_remover("keep", ", the remover is a class method that asks the reader factory for the name", extra=[
        V("", "keep", _I, "    @staticmethod\n    def remove(data_file_path: str) -> None:", "    @classmethod\n    def remove(cls, data_file_path: str) -> None:"),
        V("", "keep", _I, _R4_OS_REMOVE, "        os.remove(cls.read_for_data_file(data_file_path).offset_table_path)\n")]),
    _r4_inlined_remover("break", " - the class's remover deletes another file name", extra=[V("", "break", _I, _R4_OS_REMOVE, "        os.remove(f\"{data_file_path}.offsets\")\n")]),
    _r4_inlined_remover("break", " - the invalidation asks for the table of another file", "io.FileOffsetTable.read_for_data_file(document_file_path + \".bz2\").exists()"),
    _r4_inlined_remover("break", " - the invalidation removes only when there is NO table", "not io.FileOffsetTable.read_for_data_file(document_file_path).exists()"),
    _r4_missing_ok("keep", "", "        try:\n            os.remove(f\"{data_file_path}.offset\")\n        except FileNotFoundError:\n            if not missing_ok:\n                raise\n"),
    _r4_missing_ok("keep", " (existence asked inside the remover)",
                   "        if missing_ok and not os.path.exists(f\"{data_file_path}.offset\"):\n            return\n        os.remove(f\"{data_file_path}.offset\")\n"),
    _r4_missing_ok("break", " - the remover's shortcut looks for another file and returns with the table in place",
                   "        if missing_ok and not os.path.exists(f\"{data_file_path}.offsets\"):\n            return\n        os.remove(f\"{data_file_path}.offset\")\n"),
    _r4_missing_ok("break", " - with missing_ok the remover does nothing at all",
                   "        if missing_ok:\n            return\n        os.remove(f\"{data_file_path}.offset\")\n"),
    [V("r4: the table class is imported by name, its remover called directly", "keep", _L, "import urllib.error\n", "import urllib.error\nfrom esrally.utils.io import FileOffsetTable\n"),
     V("", "keep", _L, _R3_INV, _R3_INV_HEAD + "        if FileOffsetTable.read_for_data_file(document_file_path).exists():\n            FileOffsetTable.remove(document_file_path)\n")],
    _r4_required_flag("keep", "", "    try:\n        FileOffsetTable.remove(data_file_path)\n    except FileNotFoundError:\n        if not missing_ok:\n            raise\n"),
    _r4_required_flag("break", " - with the flag set it returns at once", "    if missing_ok:\n        return\n    FileOffsetTable.remove(data_file_path)\n"),
    _r4_table_object("keep", "", "        os.remove(self.offset_table_path)\n"),
    _r4_table_object("keep", " (pathlib, missing_ok)", "        pathlib.Path(self.offset_table_path).unlink(missing_ok=True)\n", [V("", "keep", _I, "import os\n", "import os\nimport pathlib\n")]),
    _r4_table_object("break", " - delete() removes the DATA file's name with another suffix", "        os.remove(f\"{self.data_file_path}.offsets\")\n"),
    _r4_table_object("break", " - the table object is the one of the archive", "        os.remove(self.offset_table_path)\n", path="document_file_path + \".bz2\""),
    _r4_missing_ok("break", " - the remover swallows the error of deleting another file name",
                   "        try:\n            os.remove(f\"{data_file_path}.offsets\")\n        except FileNotFoundError:\n            if not missing_ok:\n                raise\n"),
    # ---- hardening round 5 (benign/C14-b12) ---------------------------------------------------------------------------------------------------------------------------
    # O3.10 re-stated: WHAT a collaborator is handed as the place to write to is decided by data flow (`carried`): the path may reach the download through a record / tuple that
    # one own helper builds and another one takes apart (field by name, by index, by unpacking); the call of the helper that performs the download is the (re)creating statement
    _r5_download_helpers("keep", ""),
    _r5_download_helpers("keep", ", held in a local first", "                target = self.download_target(document_set, doc_path, archive_path)\n                self.download_corpus_file(document_set, target)\n" + _R5_INVALIDATE),
    _r5_download_helpers("keep", " built by keyword, the download stays in the loop and reads the record's fields",
                         "                target = self.download_target(document_set, doc_path, archive_path)\n"
                         "                self.downloader.download(document_set.base_url, target.path, target.expected_size)\n" + _R5_INVALIDATE,
                         target=_R5_TARGET.replace("DownloadTarget(doc_path, document_set.uncompressed_size_in_bytes)", "DownloadTarget(expected_size=document_set.uncompressed_size_in_bytes, path=doc_path)")),
    _r5_download_helpers("keep", " (a bare pair, unpacked by the downloading helper)",
                         target=_R5_TARGET.replace("DownloadTarget(", "("),
                         fetch=_R5_FETCH.replace("        try:\n", "        path, expected_size = target\n        try:\n").replace("target.path", "path").replace("target.expected_size", "expected_size")),
    _r5_download_helpers("keep", " - the table is invalidated before the download instead of after it", _R5_INVALIDATE + _R5_CALL),
    _r5_download_helpers("break", " - nobody invalidates the table after the download", _R5_CALL),
    _r5_download_helpers("break", " - the archive's table is invalidated after the download", _R5_CALL + "                self.invalidate_file_offset_table(archive_path)\n"),
    _r5_download_helpers("break", " (a bare pair, selected by index) - nobody invalidates the table after the download", _R5_CALL,
                         target=_R5_TARGET.replace("DownloadTarget(", "("), fetch=_R5_FETCH.replace("target.path", "target[0]").replace("target.expected_size", "target[1]")),
    _r5_download_helpers("break", " - the download stays in the loop, reads the record's fields and nobody invalidates the table",
                         "                target = self.download_target(document_set, doc_path, archive_path)\n"
                         "                self.downloader.download(document_set.base_url, target.path, target.expected_size)\n"),
]
