"""C03 — bulk indexing ingests every corpus document exactly once across clients (DESIGN.md section 4, C03)."""
from __future__ import annotations

import ast
import decimal
import fractions
import math
import operator

from sa import minieval, pat, source
from sa.cfg import cfg_of, guards, holds
from sa.source import AnchorMissing, arg_of, bind_args, dotted, inline_node, is_self_attr, last_attr, local_defs, params_of, short, u, walk_body
from sa.sym import comparison, parse_expr, rat_equal, ratfun

_P = "esrally/track/params.py"
_I = "esrally/utils/io.py"


def _same_block(a, b) -> bool:
    """two statements lie in the same statement list (same parent AND same arm of it)."""
    p = source.parent(a)
    if p is None or p is not source.parent(b):
        return False
    return any(any(x is a for x in blk) and any(x is b for x in blk) for blk in (getattr(p, f, None) for f in ("body", "orelse", "finalbody")) if isinstance(blk, list))


def _meth(mod, cls, name):
    m = mod.methods(cls).get(name)
    if m is None:
        raise AnchorMissing(f"{mod.relpath}: method '{cls.name}.{name}' not found")
    return m


def _arg(call, i):
    """i-th positional argument of a call as text ('' when absent)."""
    a = arg_of(call, i, None)
    return u(a) if a is not None else ""


def _target_name(call):
    """the plain local a call's value is assigned to (`x = call(..)` / `x: T = call(..)`), else None."""
    st = source.enclosing_stmt(call)
    if isinstance(st, ast.Assign) and st.value is call and len(st.targets) == 1 and isinstance(st.targets[0], ast.Name):
        return st.targets[0].id
    if isinstance(st, ast.AnnAssign) and st.value is call and isinstance(st.target, ast.Name):
        return st.target.id
    return None


def _unpack_names(call):
    """names at the tuple-unpack positions of `a, b, .. = call(..)`, else None."""
    st = source.enclosing_stmt(call)
    if isinstance(st, ast.Assign) and st.value is call and len(st.targets) == 1 and isinstance(st.targets[0], ast.Tuple) and all(isinstance(t, ast.Name) for t in st.targets[0].elts):
        return [t.id for t in st.targets[0].elts]
    return None


def _returned_name(f, pos=None):
    """the local returned by the single return of f (pos: element of the returned tuple), else None."""
    r = [x for x in walk_body(f) if isinstance(x, ast.Return)]
    if len(r) != 1 or r[0].value is None:
        return None
    v = r[0].value
    if pos is not None:
        if not isinstance(v, ast.Tuple) or not -len(v.elts) <= pos < len(v.elts):
            return None
        v = v.elts[pos]
    return v.id if isinstance(v, ast.Name) else None


def _empty_list_local(f, name) -> bool:
    """name is bound exactly once in f, to an empty list literal (plain or annotated assignment)."""
    if name is None:
        return False
    b = [x for x in walk_body(f) if (isinstance(x, ast.Assign) and any(isinstance(t, ast.Name) and t.id == name for t in x.targets)) or (isinstance(x, ast.AnnAssign) and isinstance(x.target, ast.Name) and x.target.id == name)]
    return len(b) == 1 and isinstance(b[0].value, ast.List) and not b[0].value.elts


# ---- local value evaluation ---------------------------------------------------------------------------------------------------------------------
# sa/minieval.py knows neither math.ceil / fractions.Fraction / decimal.Decimal nor "this expression raises ZeroDivisionError" as an OUTCOME (it reports CannotEval), and it has no
# statement level. The three rules below that are decided on VALUES (ingest-percentage cut-off, progress of an empty partition, who gets which parameter source) need exactly that,
# so a small evaluator lives here. Like minieval it only interprets EXTRACTED pure expressions / straight-line + if / try code on representative values; no repository code is called.


class _Cannot(Exception):
    """the extracted code uses something this evaluator does not interpret: the rule reports 'inconclusive', never a verdict."""


class _CannotStmt(_Cannot):
    """... a statement kind (loop, with, ...)."""

    def __init__(self, node):
        super().__init__(f"statement kind {type(node).__name__}")
        self.node = node


class _Raised(Exception):
    """the evaluated code raises (name of the exception class)."""

    def __init__(self, name, msg=""):
        super().__init__(f"{name}: {msg}" if msg else name)
        self.name = name


class _Opaque:
    """a value the evaluator could not compute; using it is _Cannot, merely storing it is fine."""


_OPAQUE = _Opaque()
_NUM = (int, float, fractions.Fraction, decimal.Decimal)
_LIB = {"math.ceil": math.ceil, "math.floor": math.floor, "math.trunc": math.trunc, "fractions.Fraction": fractions.Fraction, "decimal.Decimal": decimal.Decimal, "int": int, "float": float,
        "str": str, "repr": repr, "round": round, "abs": abs, "min": min, "max": max, "bool": bool}
_ARITH = {ast.Add: operator.add, ast.Sub: operator.sub, ast.Mult: operator.mul, ast.Div: operator.truediv, ast.FloorDiv: operator.floordiv, ast.Mod: operator.mod, ast.Pow: operator.pow}
_CMPOP = {ast.Eq: operator.eq, ast.NotEq: operator.ne, ast.Lt: operator.lt, ast.LtE: operator.le, ast.Gt: operator.gt, ast.GtE: operator.ge, ast.Is: operator.is_, ast.IsNot: operator.is_not,
          ast.In: lambda a, b: a in b, ast.NotIn: lambda a, b: a not in b}
_BASES = {"ZeroDivisionError": ("ArithmeticError",), "OverflowError": ("ArithmeticError",), "InvalidOperation": ("ArithmeticError",), "KeyError": ("LookupError",), "IndexError": ("LookupError",)}


def _guarded(fn, *args):
    try:
        return fn(*args)
    except (ArithmeticError, TypeError, ValueError) as x:  # ZeroDivisionError, OverflowError, decimal.InvalidOperation, unsupported operand types, int("x")
        raise _Raised(type(x).__name__, str(x))


def _val(e, env, imports=None, hooks=None):
    """value of an extracted expression. env: dotted text of a name / attribute chain ('all_bulks', 'self.total_bulks') -> value; imports: the module's import aliases (to resolve
    `Fraction` / `fractions.Fraction`); hooks: dotted callee -> function(call node, env) for the calls a rule wants to interpret itself."""
    imports, hooks = imports or {}, hooks or {}
    if isinstance(e, ast.Constant):
        return e.value
    if isinstance(e, (ast.Name, ast.Attribute)):
        k = dotted(e)
        if k is not None and k in env:
            if env[k] is _OPAQUE:
                raise _Cannot(f"`{k}` has no representative value")
            return env[k]
        raise _Cannot(f"`{u(e)[:60]}` is not bound")
    if isinstance(e, ast.BinOp) and type(e.op) in _ARITH:
        a, b = _val(e.left, env, imports, hooks), _val(e.right, env, imports, hooks)
        if not (isinstance(a, _NUM) and isinstance(b, _NUM)):
            raise _Cannot(f"`{u(e)[:60]}`: non-numeric operands")
        return _guarded(_ARITH[type(e.op)], a, b)
    if isinstance(e, ast.UnaryOp):
        v = _val(e.operand, env, imports, hooks)
        if isinstance(e.op, ast.Not):
            return not v
        if isinstance(v, _NUM) and isinstance(e.op, (ast.USub, ast.UAdd)):
            return -v if isinstance(e.op, ast.USub) else +v
        raise _Cannot(f"`{u(e)[:60]}`")
    if isinstance(e, ast.BoolOp):
        r = None
        for x in e.values:
            r = _val(x, env, imports, hooks)
            if bool(r) != isinstance(e.op, ast.And):
                return r
        return r
    if isinstance(e, ast.Compare):
        left = _val(e.left, env, imports, hooks)
        for op, c in zip(e.ops, e.comparators):
            right = _val(c, env, imports, hooks)
            if not _guarded(_CMPOP[type(op)], left, right):
                return False
            left = right
        return True
    if isinstance(e, ast.IfExp):
        return _val(e.body if _val(e.test, env, imports, hooks) else e.orelse, env, imports, hooks)
    if isinstance(e, ast.Call):
        d = dotted(e.func)
        if d is not None and d in hooks:
            return hooks[d](e, env)
        head, _, rest = (d or "").partition(".")
        full = (imports[head] + ("." + rest if rest else "")) if head in imports else d
        if full in _LIB and not e.keywords and not any(isinstance(a, ast.Starred) for a in e.args):
            vals = [_val(a, env, imports, hooks) for a in e.args]
            if all(isinstance(v, _NUM + (str,)) for v in vals):
                return _guarded(_LIB[full], *vals)
        raise _Cannot(f"call `{u(e)[:60]}`")
    raise _Cannot(f"{type(e).__name__} `{u(e)[:60]}`")


def _exec(stmts, env, imports=None, hooks=None, keep=()):
    """run extracted straight-line / if / try statements on representative values: ('return', value) or ('fall', None); raises _Raised when the code raises and _Cannot when it uses
    something that is not interpreted. Assignments to names and attribute chains update env (a value that cannot be computed is stored as opaque); names in `keep` stay as preset
    (the rule fixed their value: e.g. the result of a call into the repository). Expression statements (logging, calls made for their effect) are skipped."""
    for s in stmts:
        if isinstance(s, (ast.Expr, ast.Pass, ast.Assert, ast.Import, ast.ImportFrom, ast.Global, ast.Nonlocal)):
            continue
        if isinstance(s, (ast.Assign, ast.AnnAssign)):
            if s.value is None:
                continue
            try:
                v = _val(s.value, env, imports, hooks)
            except _Cannot:
                v = _OPAQUE
            for t in (s.targets if isinstance(s, ast.Assign) else [s.target]):
                k = dotted(t)
                if k is not None:
                    if k not in keep:
                        env[k] = v
                else:
                    for x in ast.walk(t):
                        if isinstance(x, ast.Name) and isinstance(x.ctx, ast.Store) and x.id not in keep:
                            env[x.id] = _OPAQUE
        elif isinstance(s, ast.AugAssign):
            k = dotted(s.target)
            if k is None:
                continue
            try:
                cur = ast.copy_location(ast.BinOp(left=ast.parse(k, mode="eval").body, op=s.op, right=s.value), s)
                v = _val(cur, env, imports, hooks)
            except _Cannot:
                v = _OPAQUE
            if k not in keep:
                env[k] = v
        elif isinstance(s, ast.If):
            r = _exec(s.body if _val(s.test, env, imports, hooks) else s.orelse, env, imports, hooks, keep)
            if r[0] != "fall":
                return r
        elif isinstance(s, ast.Return):
            return "return", (_val(s.value, env, imports, hooks) if s.value is not None else None)
        elif isinstance(s, ast.Raise):
            x = s.exc.func if isinstance(s.exc, ast.Call) else s.exc
            raise _Raised((dotted(x) or "?").rsplit(".", 1)[-1] if x is not None else "?")
        elif isinstance(s, ast.Try):
            try:
                r = _exec(s.body, env, imports, hooks, keep)
                if r[0] == "fall":
                    r = _exec(s.orelse, env, imports, hooks, keep)
            except _Raised as x:
                names = (x.name,) + _BASES.get(x.name, ()) + ("Exception", "BaseException")
                r = None
                for h in s.handlers:
                    hs = [h.type] if h.type is not None and not isinstance(h.type, ast.Tuple) else (h.type.elts if h.type is not None else [])
                    if h.type is None or any((dotted(t) or "").rsplit(".", 1)[-1] in names for t in hs):
                        r = _exec(h.body, env, imports, hooks, keep)
                        break
                if r is None:
                    _exec(s.finalbody, env, imports, hooks, keep)
                    raise
            f = _exec(s.finalbody, env, imports, hooks, keep)
            if f[0] != "fall":
                return f
            if r[0] != "fall":
                return r
        else:
            raise _CannotStmt(s)
    return "fall", None


# ingest-percentage cut-off: (bulks of the group, ingest-percentage as float_param() delivers it) -> ceil(p% of the bulks), computed by hand / exactly. The first rows are products
# that are integers mathematically but not in binary floating point (1500 * 2.2 / 100 == 33.00000000000001).
_CUTOFF_ROWS = [(1500, 2.2, 33), (3000, 1.1, 33), (2500, 0.28, 7), (100000, 0.07, 70), (200, 50.0, 100), (7, 100.0, 7), (3, 33.4, 2), (10, 25.0, 3), (1, 0.5, 1), (0, 100.0, 0),
                (10 ** 12, 100.0, 10 ** 12), (999, 99.9, 999)]


assert all(math.ceil(fractions.Fraction(str(p_)) * n_ / 100) == w_ for n_, p_, w_ in _CUTOFF_ROWS)

_L = "esrally/track/loader.py"
_SAMPLE = "/data/corpus/documents.json"


def _own_params(f):
    """parameters of a function / method without self / cls."""
    ps = params_of(f)
    static = any(dotted(d) == "staticmethod" for d in getattr(f, "decorator_list", []))
    return ps[1:] if ps and ps[0] in ("self", "cls") and not static else ps


def _str_value(e, name):
    """value of a file-name expression over one path parameter, evaluated for a sample path (None when it cannot be evaluated)."""
    try:
        v = minieval.ev(e, {name: _SAMPLE})
    except minieval.CannotEval:
        return None
    return v if isinstance(v, str) else None


def _removed_files(io_, f, depth=0):
    """names of the files an io function deletes for the sample data path (directly through os.remove / os.unlink or through another function of the module it hands its path to)."""
    ps = _own_params(f)
    out = set()
    if len(ps) != 1 or depth > 3:
        return out
    for c in source.calls_in(f):
        d = dotted(c.func)
        if d in ("os.remove", "os.unlink") and len(c.args) == 1:
            out.add(_str_value(c.args[0], ps[0]))
        elif d is not None and len(c.args) == 1 and pat.is_(c.args[0], "V_p", binds={"p": ps[0]}):
            callee = io_.get(d, required=False)
            if isinstance(callee, source.FUNC_TYPES):
                out |= _removed_files(io_, callee, depth + 1)
    return out


def _stale_table_rule(chk, ldr, io_):
    """O3.10 (F25): O3.7 decides that a table is trusted on its modification time alone (valid iff it exists and is not older than the data file) and that a valid table is neither
    rebuilt nor counted. A data file that Rally itself (re)creates - decompressing an archive restores the ARCHIVED mtime, a download may do the same - can therefore meet the table of
    its predecessor and look older than it. Necessary: whatever (re)creates the document file also removes an existing table of that file before the table is prepared."""
    chk.rule("O3.10", "offset tables are only used with the file they were built from: the table's file name is the same for writer, reader and remover, and every statement of the corpus "
             "preparation that (re)creates the document file (decompress into it, download to a target that may be it) removes an existing offset table of that file on every normal "
             "path before the table is prepared", 4,
             "an updated corpus extracted from a tar archive keeps the archive's (older) mtime: the predecessor's table looks valid, the line count is not checked and every client whose "
             "slice starts beyond 50,000 lines seeks to the OLD file's offsets - documents ingested twice and never")
    # the table's file name, as the factories of the table class compute it for a data file
    FT = io_.cls("FileOffsetTable")
    finit = _meth(io_, FT, "__init__")
    opened = [c.args[0].attr for m in io_.methods(FT).values() for c in source.calls_in(m) if dotted(c.func) == "open" and c.args and is_self_attr(c.args[0])]
    tparam = [x.value.id for x in walk_body(finit) if isinstance(x, ast.Assign) and opened and is_self_attr(x.targets[0], opened[0]) and isinstance(x.value, ast.Name)]
    if not tparam:
        raise AnchorMissing("FileOffsetTable: constructor parameter holding the table's own path")
    names = {}
    for m in io_.methods(FT).values():
        for r in [x for x in walk_body(m) if isinstance(x, ast.Return) and isinstance(x.value, ast.Call) and dotted(x.value.func) in ("cls", FT.name)]:
            a = bind_args(r.value, finit).get(tparam[0])
            ps = _own_params(m)
            if a is not None and len(ps) == 1:
                names[m.name] = _str_value(a, ps[0])
    rm = io_.get("remove_file_offset_table", required=False)
    removed = _removed_files(io_, rm) if isinstance(rm, source.FUNC_TYPES) else set()
    table = next(iter(names.values()), None)
    ok = len(names) >= 2 and table is not None and set(names.values()) == {table} and removed == {table}
    chk.ob("O3.10", "writer, reader and remover of the table use the same file name for a data file", ok, rm if rm is not None else FT, f"factories: {names}; removed: {sorted(map(str, removed))}",
           key=f"{_I}:remove_file_offset_table:table-name")
    if not isinstance(io_.get("prepare_file_offset_table", required=False), source.FUNC_TYPES):
        raise AnchorMissing(f"{_I}: prepare_file_offset_table")
    DP = ldr.cls("DocumentSetPreparator")
    meths = ldr.methods(DP)

    def io_call(c, fname):
        """c is a call of the io module's function `fname` (through whatever alias the loader imports the module under)."""
        return isinstance(c.func, ast.Attribute) and c.func.attr == fname and isinstance(c.func.value, ast.Name) and ldr.imports.get(c.func.value.id, "").endswith("utils.io")

    def logging_only(st):
        return isinstance(st, ast.Expr) and isinstance(st.value, ast.Call) and any(isinstance(x, ast.Name) and x.id in ("logging", "logger") or isinstance(x, ast.Attribute) and x.attr == "logger"
                                                                                    for x in ast.walk(st.value.func))

    def removals(f, x, depth=0):
        """statements of f after which no offset table of the file named by the local / parameter x exists: a call of the io module's remover with x - alone or under a test that
        this very table exists - or a call of an own method that does that with the parameter x is bound to on each of its normal paths."""
        out = []
        for st in walk_body(f):
            if not (isinstance(st, ast.Expr) and isinstance(st.value, ast.Call)):
                continue
            c = st.value
            if io_call(c, "remove_file_offset_table") and len(c.args) == 1 and pat.is_(c.args[0], "V_x", binds={"x": x}) and table is not None and removed == {table}:
                p = source.parent(st)
                t = p.test if isinstance(p, ast.If) and not p.orelse and [s_ for s_ in p.body if not logging_only(s_)] == [st] else None
                if isinstance(t, ast.Call) and dotted(t.func) in ("os.path.exists", "os.path.isfile", "os.path.lexists") and len(t.args) == 1 and _str_value(t.args[0], x) == table:
                    out.append(p)
                else:
                    out.append(st)
            elif depth == 0 and isinstance(c.func, ast.Attribute) and isinstance(c.func.value, ast.Name) and c.func.value.id == "self" and c.func.attr in meths:
                h = meths[c.func.attr]
                q = [k_ for k_, v in bind_args(c, h).items() if pat.is_(v, "V_x", binds={"x": x})]
                if len(q) == 1:
                    inner = removals(h, q[0], depth + 1)
                    gh = cfg_of(h)
                    if inner and gh.must_pass(gh.entry, [gh.node_of(i_) for i_ in inner], normal_only=True):
                        out.append(st)
        return out

    # own methods that prepare the table of their path parameter
    preparers = {}
    for m in meths.values():
        for c in source.calls_in(m):
            if io_call(c, "prepare_file_offset_table") and c.args and isinstance(c.args[0], ast.Name) and c.args[0].id in _own_params(m):
                preparers[m.name] = c.args[0].id
    n_sites = 0
    for m in meths.values():
        if m.name in preparers:
            continue
        # role: the document path of this method is what it hands to the table preparation
        psites = {}
        for c in source.calls_in(m):
            a = None
            if isinstance(c.func, ast.Attribute) and isinstance(c.func.value, ast.Name) and c.func.value.id == "self" and c.func.attr in preparers:
                a = bind_args(c, meths[c.func.attr]).get(preparers[c.func.attr])
            elif io_call(c, "prepare_file_offset_table") and c.args:
                a = c.args[0]
            if a is not None:
                if not isinstance(a, ast.Name):
                    raise AnchorMissing(f"{m.name}: the path handed to the offset-table preparation is not a plain local ({u(a)})")
                psites.setdefault(a.id, []).append(c)
        g = cfg_of(m) if psites else None
        for x, pcs in psites.items():
            # locals that may hold the document path (`target_path = doc_path` in one arm)
            alias = {x} | {t.id for st in walk_body(m) if isinstance(st, ast.Assign) and pat.is_(st.value, "V_x", binds={"x": x}) for t in st.targets if isinstance(t, ast.Name)}
            # (re)creation of the file: a call on a collaborator object (self.<attribute>.<method>: the decompressor, the downloader) that is handed the path as the place to write to
            creators = [c for c in source.calls_in(m) if isinstance(c.func, ast.Attribute) and is_self_attr(c.func.value)
                        and any(isinstance(a, ast.Name) and a.id in alias for a in list(c.args) + [k_.value for k_ in c.keywords])]
            inv = [g.node_of(i_) for i_ in removals(m, x)]
            pn = [g.node_of(c) for c in pcs]
            for c in creators:
                n_sites += 1
                cn = g.node_of(c)
                after = bool(inv) and g.must_pass(cn, inv, exits=pn, normal_only=True)
                before = bool(inv) and g.dominated_by_nodes(cn, inv) and not any(g.path_exists(p_, cn, avoid=inv) for p_ in pn)
                what = f"{c.func.value.attr}.{c.func.attr}"
                chk.ob("O3.10", f"{m.name}: `{what}(..)` (re)creates the document file -> an existing offset table of it is removed before the table is prepared", after or before, c,
                       "" if after or before else f"a path from `{short(c, 70)}` reaches the table preparation with the predecessor's table in place",
                       key=f"{_L}:{DP.name}.{m.name}:{what}:stale-offset-table")
    if n_sites == 0:
        raise AnchorMissing("DocumentSetPreparator: no statement that (re)creates a document file was located")


def run(chk):
    repo = chk.repo
    pr, io_ = repo.module(_P), repo.module(_I)
    chk.use(pr, io_)
    chk.explanation = (
        "Decides the slicing arithmetic by shape: bounds() inlined symbolically — start(s) and end(e) are the same rounding of the same linear expression, so end(e) == start(e+1) and adjacent "
        "client ranges share a boundary whatever the rounding does; docs / lines / offset derived consistently with one factor k in {1,2}; both consumers of bounds() (reader factory and "
        "bulk counting) receive role-identical arguments, and the values flow positionally to the reader / slice parameters of the same meaning; every source read is bounded by "
        "min(bulk size, limit - progress) with progress advanced by what was read; pairing factor agrees across readers; conflict ids index only the emitted prefix; bulk counting is a "
        "ceiling division; offset-table protocol. Decided on VALUES (extracted code evaluated by a small local evaluator, no repository code is run): the ingest cut-off equals the exact "
        "ceil(all * p / 100) for bulk counts / fractional percentages whose product is an integer mathematically but not in binary floating point; progress is current / total and is "
        "defined for a group without documents (total 0); for every conflict mode that builds an id list, what partition() hands to a client was created for that client (the id "
        "window lives in the source's reader). Path rule: every (re)creation of a document file is followed (or preceded) by the removal of that file's offset table before the table is "
        "prepared, because O3.7 trusts a table on its mtime alone."
    )
    chk.not_decided = "round(total/n * n) == total for all n (float), byte-exactness of tell() cookies for multi-byte text, mmap vs text-mode newline agreement, order of co-located clients."

    # ---- O3.1 slices telescope -------------------------------------------------------------------------------------------------------------
    chk.rule("O3.1", "bounds(): start(s) and end(e) are the same rounding applied to docs_per_client * s and docs_per_client * (e + 1) (so end(e) == start(e + 1)); docs == end - start; "
             "lines == docs * k; offset == start * k with one k in {1, 2} selected by the action-and-meta-data flag; returned as (offset, docs, lines)", 6,
             "any split where a directly computed share differs by rounding: a document between two clients is read twice or never")
    bf = pr.func("bounds")
    bp = params_of(bf)
    if len(bp) != 5:
        raise AnchorMissing(f"bounds(): five parameters expected, found {bp}")
    total, s, e, n, flag = bp
    defs = local_defs(bf)
    ret = [x for x in walk_body(bf) if isinstance(x, ast.Return)]
    if len(ret) != 1 or not isinstance(ret[0].value, ast.Tuple) or len(ret[0].value.elts) != 3:
        raise AnchorMissing("bounds() return tuple")
    off_e, docs_e, lines_e = ret[0].value.elts

    def unround(x):
        x = defs.get(x.id, x) if isinstance(x, ast.Name) else x
        if isinstance(x, ast.Call) and dotted(x.func) in ("round", "int", "math.floor", "math.ceil") and len(x.args) == 1:
            return dotted(x.func), x.args[0]
        return None, x

    # find start / end locals: docs == end - start
    dx = defs.get(docs_e.id) if isinstance(docs_e, ast.Name) else docs_e
    ok = isinstance(dx, ast.BinOp) and isinstance(dx.op, ast.Sub) and isinstance(dx.left, ast.Name) and isinstance(dx.right, ast.Name)
    chk.ob("O3.1", "docs == end - start", ok, dx if dx is not None else bf, u(dx) if dx is not None else "")
    if not ok:
        return
    endv, startv = dx.left.id, dx.right.id
    rf_s, arg_s = unround(ast.Name(id=startv, ctx=ast.Load()))
    rf_e, arg_e = unround(ast.Name(id=endv, ctx=ast.Load()))
    ok = rf_s is not None and rf_s == rf_e
    chk.ob("O3.1", "start and end use the same rounding function", ok, defs.get(startv, bf), f"start: {rf_s}, end: {rf_e}")
    A = parse_expr(f"{total} / {n}")
    a_s = inline_node(arg_s, defs)
    a_e = inline_node(arg_e, defs)
    ok_s = rat_equal(a_s, parse_expr(f"({total} / {n}) * {s}"))
    ok_e = rat_equal(a_e, parse_expr(f"({total} / {n}) * ({e} + 1)"))
    chk.ob("O3.1", "start == round(total/n * s)", ok_s, defs.get(startv, bf), u(a_s))
    chk.ob("O3.1", "end == round(total/n * (e + 1))  [== start(e + 1)]", ok_e, defs.get(endv, bf), u(a_e))
    # telescoping identity proper: end[e+1 -> x] is alpha-equivalent to start[s -> x]
    try:
        r1 = ratfun(a_s, atom=lambda nd: "X" if isinstance(nd, ast.Name) and nd.id == s else None)
        r2 = ratfun(a_e, atom=lambda nd: "X" if (isinstance(nd, ast.BinOp) and isinstance(nd.op, ast.Add) and {u(nd.left), u(nd.right)} == {e, "1"}) else None)
        chk.ob("O3.1", "end(e) and start(e + 1) are the same expression", r1 == r2, defs.get(endv, bf), f"{r1} vs {r2}")
    except Exception as ex:  # NotRational
        chk.ob("O3.1", "end(e) and start(e + 1) are the same expression", False, bf, str(ex))
    kdefs = [k for k, v in defs.items() if isinstance(v, ast.IfExp) and source.is_const(v.body, 2) and source.is_const(v.orelse, 1) and u(v.test) == flag]
    ok = len(kdefs) == 1
    k = kdefs[0] if ok else "?"
    chk.ob("O3.1", "k == 2 if action-and-meta-data else 1", ok, defs.get(k, bf) if ok else bf, "")
    ok = rat_equal(inline_node(lines_e, {docs_e.id: dx} if False else {kk: vv for kk, vv in defs.items() if kk not in (startv, endv, k)}), parse_expr(f"({endv} - {startv}) * {k}"))
    chk.ob("O3.1", "lines == docs * k", ok, lines_e, u(defs.get(lines_e.id)) if isinstance(lines_e, ast.Name) else u(lines_e))
    ok = rat_equal(inline_node(off_e, {kk: vv for kk, vv in defs.items() if kk not in (startv, endv, k)}), parse_expr(f"{startv} * {k}"))
    chk.ob("O3.1", "offset == start * k", ok, off_e, u(defs.get(off_e.id)) if isinstance(off_e, ast.Name) else u(off_e))

    # the slices tile the corpus only if every client of the TASK gets one: the driver partitions with (task-local index, the task's client count)
    from rules.C05 import partition_call_rule

    drv_ = repo.module("esrally/driver/driver.py")
    chk.use(drv_)
    partition_call_rule(chk, "O3.1", drv_)
    from rules.C02 import allocation_totals

    allocation_totals(chk, "O3.1", drv_)

    # ---- O3.2 both consumers slice identically ---------------------------------------------------------------------------------------------------
    chk.rule("O3.2", "the call of bounds() in the reader factory and in the bulk counter pass role-identical arguments; results are unpacked in the returned order; values flow to the reader and "
             "slice parameters of the same meaning; the partition source hands the same (start, end, total, bulk size) to both", 10,
             "the ingest-percentage cut-off counts bulks of other slices / another bulk size: the group stops early or late")
    cr = pr.func("create_readers")
    nb = pr.func("number_of_bulks")
    OFF = DOCS = LINES = NB_DOCS = None
    for f, names in ((cr, ("start_client_index", "end_client_index", "num_clients")), (nb, None)):
        calls = [c for c in source.calls_in(f) if last_attr(c.func) == "bounds"]
        if not calls:
            raise AnchorMissing(f"bounds() call in {f.name}")
        c = calls[0]
        b = bind_args(c, bf, skip_self=False)
        fp = params_of(f)
        if len(fp) < 5:
            raise AnchorMissing(f"{f.name}(): at least five parameters expected, found {fp}")
        loop = source.enclosing(c, ast.For)
        dv = loop.target.id if loop is not None and isinstance(loop.target, ast.Name) else "docs"
        ok = u(b.get(total)) == f"{dv}.number_of_documents" and u(b.get(flag)) == f"{dv}.includes_action_and_meta_data"
        chk.ob("O3.2", f"{f.name}: total and flag come from the document set", ok, c, short(c, 100))
        roles = [u(b.get(s)), u(b.get(e)), u(b.get(n))]
        if f is cr:
            want = ["start_client_index", "end_client_index", "num_clients"]
        else:
            want = [fp[1], fp[2], fp[3]]
        ok = roles == want and all(r in fp for r in roles)
        chk.ob("O3.2", f"{f.name}: (start, end, total clients) are its own parameters in that order", ok, c, f"{roles}")
        st = source.enclosing_stmt(c)
        if isinstance(st, ast.Assign) and isinstance(st.targets[0], ast.Tuple):
            names_ = [u(t) for t in st.targets[0].elts]
            reads = {n.id for n in walk_body(f) if isinstance(n, ast.Name) and isinstance(n.ctx, ast.Load)}
            if f is cr:
                # positions are the roles (offset, docs, lines); three distinct plain names, each consumed below
                ok = len(names_) == 3 and len(set(names_)) == 3 and all(isinstance(t, ast.Name) for t in st.targets[0].elts)
                OFF, DOCS, LINES = names_ if ok else (None, None, None)
            else:
                # the counter consumes the document count (position 1) and nothing else of the triple
                ok = len(names_) == 3 and names_[1] in reads and names_[0] not in reads and names_[2] not in reads
                NB_DOCS = names_[1] if ok and isinstance(st.targets[0].elts[1], ast.Name) else None
            chk.ob("O3.2", f"{f.name}: result unpacked as (offset, docs, lines)", ok, st, f"{names_}")
    cdr = pr.func("create_default_reader")
    rc = [c for c in source.calls_in(cr) if u(c.func) == "create_reader"]
    crp = params_of(cr)
    rloop = source.enclosing(rc[0], ast.For) if rc else None
    rdv = rloop.target.id if rloop is not None and isinstance(rloop.target, ast.Name) else "docs"
    ok = bool(rc) and [u(a) for a in rc[0].args[:6]] == [rdv, OFF, LINES, DOCS, "batch_size", "bulk_size"] and {"batch_size", "bulk_size"} <= set(crp) \
        and params_of(cdr)[:6] == ["docs", "offset", "num_lines", "num_docs", "batch_size", "bulk_size"]
    chk.ob("O3.2", "reader factory receives (docs, offset, lines, docs count, batch, bulk) under the parameters of the same meaning", ok, rc[0] if rc else cr, "")
    sl = [c for c in source.calls_in(cdr) if last_attr(c.func) == "Slice"]
    S = pr.cls("Slice")
    sinit = _meth(pr, S, "__init__")
    ok = bool(sl) and [u(a) for a in sl[0].args[1:3]] == ["offset", "num_lines"] and params_of(sinit)[2:4] == ["offset", "number_of_lines"]
    chk.ob("O3.2", "slice created with (offset, number of lines)", ok, sl[0] if sl else cdr, "")
    ok = any(isinstance(x, ast.Assign) and is_self_attr(x.targets[0], "offset") and u(x.value) == "offset" for x in walk_body(sinit)) and any(
        isinstance(x, ast.Assign) and is_self_attr(x.targets[0], "number_of_lines") and u(x.value) == "number_of_lines" for x in walk_body(sinit))
    chk.ob("O3.2", "slice stores offset and limit under their own names", ok, sinit, "")
    so = _meth(pr, S, "open")
    sk = [c for c in source.calls_in(so) if last_attr(c.func) == "skip_lines"]
    ok = bool(sk) and _arg(sk[0], 2) == "self.offset" and _arg(sk[0], 1) == "self.source"
    chk.ob("O3.2", "slice skips exactly its offset on open", ok, sk[0] if sk else so, "")
    PB = pr.cls("PartitionBulkIndexParamSource")
    ii = _meth(pr, PB, "_init_internal_params")
    bdb = pr.func("bulk_data_based")
    c1 = [c for c in source.calls_in(ii) if last_attr(c.func) == "bulk_data_based"]
    c2 = [c for c in source.calls_in(ii) if last_attr(c.func) == "number_of_bulks"]
    if not c1 or not c2:
        raise AnchorMissing("bulk_data_based / number_of_bulks calls in _init_internal_params")
    b1 = {k: u(v) for k, v in bind_args(c1[0], bdb, skip_self=False).items()}
    b2 = {k: u(v) for k, v in bind_args(c2[0], nb, skip_self=False).items()}
    nbp = params_of(nb)
    same = b1.get("start_client_index") == b2.get(nbp[1]) and b1.get("end_client_index") == b2.get(nbp[2]) and b1.get("num_clients") == b2.get(nbp[3]) and b1.get("corpora") == b2.get(nbp[0])
    chk.ob("O3.2", "reader and counter get the same corpora / start / end / total", same, c2[0], f"readers: {[b1.get(x) for x in ('corpora', 'start_client_index', 'end_client_index', 'num_clients')]} counter: {[b2.get(x) for x in nbp[:4]]}")
    ok = b1.get("bulk_size") == b2.get(nbp[4]) == "self.bulk_size" and b1.get("batch_size") == "self.batch_size"
    chk.ob("O3.2", "reader and counter use the same bulk size (not the batch size)", ok, c2[0], f"readers bulk_size={b1.get('bulk_size')} batch_size={b1.get('batch_size')}; counter bulk size={b2.get(nbp[4])}")
    idefs = local_defs(ii)
    a_start, a_end = bind_args(c2[0], nb, skip_self=False).get(nbp[1]), bind_args(c2[0], nb, skip_self=False).get(nbp[2])
    ok = a_start is not None and a_end is not None and source.inline(a_start, idefs) == "self.partitions[0]" and source.inline(a_end, idefs) == "self.partitions[-1]" and any(
        isinstance(x, ast.Assign) and is_self_attr(x.targets[0], "partitions") and u(x.value) == "sorted(self.partitions)" for x in walk_body(ii))
    chk.ob("O3.2", "start/end are the first/last of the sorted partition list", ok, ii, "")
    # pass-through in bulk_data_based
    crc = [c for c in source.calls_in(bdb) if last_attr(c.func) == "create_readers"]
    ok = bool(crc) and [u(a) for a in crc[0].args[:6]] == ["num_clients", "start_client_index", "end_client_index", "corpora", "batch_size", "bulk_size"] and params_of(cr)[:6] == ["num_clients", "start_client_index", "end_client_index", "corpora", "batch_size", "bulk_size"]
    chk.ob("O3.2", "bulk_data_based hands its parameters on unchanged", ok, crc[0] if crc else bdb, "")

    # ---- O3.3 bounded read -------------------------------------------------------------------------------------------------------------------------
    chk.rule("O3.3", "slice reader: every read is readlines(min(bulk size, limit - progress)); progress += len(lines read) on every path after the read; StopIteration once progress >= limit", 4,
             "a client that is not the last one reads into its neighbour's slice (documents ingested twice)")
    nx = _meth(pr, S, "__next__")
    g = cfg_of(nx)
    reads = [c for c in source.calls_in(nx) if last_attr(c.func) in ("readlines", "readline", "read")]
    ok = len(reads) == 1 and last_attr(reads[0].func) == "readlines"
    chk.ob("O3.3", "single read site", ok, reads[0] if reads else nx, "")
    if reads:
        a = inline_node(reads[0].args[0], local_defs(nx)) if reads[0].args else None
        ok = isinstance(a, ast.Call) and dotted(a.func) == "min" and len(a.args) == 2 and any(u(x) == "self.bulk_size" for x in a.args) and any(rat_equal(x, parse_expr("self.number_of_lines - self.current_line")) for x in a.args)
        chk.ob("O3.3", "read bounded by min(bulk size, limit - progress)", ok, reads[0], u(a) if a is not None else "unbounded")
        asg = source.enclosing_stmt(reads[0])
        lv = u(asg.targets[0]) if isinstance(asg, ast.Assign) else None
        adv = [x for x in walk_body(nx) if isinstance(x, ast.AugAssign) and is_self_attr(x.target, "current_line")]
        ok = len(adv) == 1 and isinstance(adv[0].op, ast.Add) and u(adv[0].value) == f"len({lv})" and not guards(adv[0]) and g.dominated_by_nodes(g.node_of(adv[0]), [g.node_of(reads[0])])
        chk.ob("O3.3", "progress += len(lines read), unconditionally after the read", ok, adv[0] if adv else nx, "")
        ow = [x for m in pr.methods(S).values() for x in walk_body(m) if isinstance(x, (ast.Assign, ast.AugAssign)) and is_self_attr(x.targets[0] if isinstance(x, ast.Assign) else x.target, "current_line") and x not in adv and m.name != "__init__"]
        chk.ob("O3.3", "no other writer of the progress counter", not ow, ow[0] if ow else S, "")
    stops = [x for x in walk_body(nx) if isinstance(x, ast.Raise) and "StopIteration" in u(x.exc)]
    ok = any(holds(x, "self.current_line >= self.number_of_lines") for x in stops) and bool(reads) and \
        any(g.dominated_by_nodes(g.node_of(reads[0]), [g.node_of(source.enclosing(x, ast.If))]) for x in stops if source.enclosing(x, ast.If) is not None)
    chk.ob("O3.3", "StopIteration once progress >= limit, tested before reading", ok, stops[0] if stops else nx, "")

    # ---- O3.4 pairing factor ----------------------------------------------------------------------------------------------------------------------------
    chk.rule("O3.4", "factor 2 is used consistently: source-only reader doubles the bulk size (lines) and halves the reported count; the meta-data reader appends exactly one action line per "
             "document line in both the fast and the regular path", 4,
             "files with action lines: bulks cut between an action line and its document, or doc counts doubled")
    SO = pr.cls("SourceOnlyIndexDataReader")
    soi = _meth(pr, SO, "__init__")
    sup = [c for c in source.calls_in(soi) if last_attr(c.func) == "__init__"]
    ok = bool(sup) and len(sup[0].args) >= 3 and rat_equal(sup[0].args[2], parse_expr("bulk_size * 2")) and _arg(sup[0], 1) == "batch_size"
    chk.ob("O3.4", "source-only reader reads bulk_size * 2 lines per bulk (batch size unchanged)", ok, sup[0] if sup else soi, "")
    rb = _meth(pr, SO, "read_bulk")
    r = [x for x in walk_body(rb) if isinstance(x, ast.Return)]
    # role: the local holding what next(self.file_source) delivered is returned as it is (position 1) and counted as len // 2 (position 0)
    lv_ = _returned_name(rb, 1)
    ok = len(r) == 1 and lv_ is not None and pat.is_(r[0].value, "(len(V_l) // 2, V_l)", binds={"l": lv_}) and pat.is_(local_defs(rb).get(lv_), "next(self.file_source)")
    chk.ob("O3.4", "source-only reader reports len(lines) // 2 documents and returns the lines unchanged", ok, r[0] if r else rb, "")
    MD = pr.cls("MetadataIndexDataReader")
    for name in ("_read_bulk_fast", "_read_bulk_regular"):
        f = _meth(pr, MD, name)
        gf = cfg_of(f)
        loops = [x for x in walk_body(f) if isinstance(x, ast.For)]
        ok = False
        if loops:
            L = loops[0]
            head = gf.node_of(L)
            # roles: the bulk under construction is the (initially empty) list returned at position 1; the document is the loop variable over the lines read
            cb = _returned_name(f, 1)
            apps = [c for c in ast.walk(L) if isinstance(c, ast.Call) and cb is not None and pat.is_(c.func, "V_b.append", binds={"b": cb}) and len(c.args) == 1]
            docv = L.target.id if isinstance(L.target, ast.Name) else None
            # on every path of one iteration: exactly one append whose argument carries the document
            doc_apps = [c for c in apps if any(isinstance(x, ast.Name) and x.id == docv for x in ast.walk(c.args[0]))]
            starts = gf.edge_targets(head, "iter")
            dn = [gf.node_of(c) for c in doc_apps]
            every = bool(dn) and all(head.id not in gf.reachable([s_], avoid=dn, edge_ok=gf.normal_edge) for s_ in starts)
            twice = any(gf.path_exists(a_, b_, avoid=[head]) for a_ in dn for b_ in dn if a_.id != b_.id)
            meta_apps = [c for c in apps if c not in doc_apps]
            if name == "_read_bulk_fast":
                ok = every and not twice and len(meta_apps) == 1 and not guards(meta_apps[0], stop=L) and meta_apps[0].lineno < doc_apps[0].lineno
            else:
                # a meta line precedes the doc whenever a meta item exists
                ok = every and not twice and len(meta_apps) >= 1 and all(any(gf.path_exists(gf.node_of(m), d_, avoid=[head]) for d_ in dn) for m in meta_apps)
            r = [x for x in walk_body(f) if isinstance(x, ast.Return)]
            ok = ok and len(r) == 1 and isinstance(L.iter, ast.Name) and pat.is_(r[0].value, "(len(V_l), V_b)", binds={"l": L.iter.id, "b": cb}) and _empty_list_local(f, cb)
            src = local_defs(f).get(u(L.iter))
            ok = ok and pat.is_(src, "next(self.file_source)")
        chk.ob("O3.4", f"{name}: one document append per line read (action line before it), count == lines read", ok, f, "")

    # ---- O3.5 bulk-size bound -------------------------------------------------------------------------------------------------------------------------
    chk.rule("O3.5", "the batch loop stops at the batch size; each bulk is one bounded read; the emitted bulk-size is that read's document count", 3, "a bulk larger than the configured bulk size")
    IR = pr.cls("IndexDataReader")
    inx = _meth(pr, IR, "__next__")
    wl = [x for x in walk_body(inx) if isinstance(x, ast.While)]
    rbc = [c for c in ast.walk(wl[0]) if isinstance(c, ast.Call) and u(c.func) == "self.read_bulk"] if wl else []
    # roles: the bulk's count is position 0 of the read_bulk() unpack; the batch counter is the local advanced by that count inside the loop; the batch is the list returned last
    un = _unpack_names(rbc[0]) if len(rbc) == 1 else None
    cntv = un[0] if un and len(un) == 2 else None
    accs = [x.target.id for x in ast.walk(wl[0]) if isinstance(x, ast.AugAssign) and isinstance(x.op, ast.Add) and isinstance(x.target, ast.Name) and isinstance(x.value, ast.Name) and x.value.id == cntv] if wl and cntv else []
    ok = bool(wl) and len(accs) == 1 and pat.is_(wl[0].test, "V_acc < self.batch_size", binds={"acc": accs[0]})
    chk.ob("O3.5", "batch loop: while docs_in_batch < batch size", ok, wl[0] if wl else inx, u(wl[0].test) if wl else "")
    batchv = _returned_name(inx, -1)
    ap = [c for c in ast.walk(wl[0]) if isinstance(c, ast.Call) and pat.is_(c.func, "V_b.append", binds={"b": batchv})] if wl and batchv else []
    ok = len(rbc) == 1 and len(ap) == 1 and cntv is not None and len(ap[0].args) == 1 and isinstance(ap[0].args[0], ast.Tuple) and bool(ap[0].args[0].elts) and pat.is_(ap[0].args[0].elts[0], "V_c", binds={"c": cntv}) and _empty_list_local(inx, batchv)
    chk.ob("O3.5", "one read_bulk() per appended bulk, reported with its own count", ok, ap[0] if ap else inx, "")
    ent = _meth(pr, IR, "__enter__")
    ok = any(isinstance(c, ast.Call) and last_attr(c.func) == "open" and _arg(c, 2) == "self.bulk_size" for c in walk_body(ent))
    chk.ob("O3.5", "the slice is opened with the reader's bulk size", ok, ent, "")
    # the reader factory hands batch size and bulk size to each reader under the parameter of the same meaning (both are ints: a swap type-checks and only shows with batch != bulk);
    # each reader class passes them on to the base class in the same roles (the source-only reader doubles the bulk size: two lines per document)
    cdr_ = pr.func("create_default_reader")
    base_init = pr.methods(IR).get("__init__")
    n_ctor = 0
    for cname in ("SourceOnlyIndexDataReader", "MetadataIndexDataReader"):
        rc_ = pr.cls(cname)
        rinit = pr.methods(rc_).get("__init__")
        for c in [c for c in source.calls_in(cdr_) if last_attr(c.func) == cname]:
            n_ctor += 1
            b_ = bind_args(c, rinit)
            ok = u(b_.get("batch_size")) == "batch_size" and u(b_.get("bulk_size")) == "bulk_size" and {"batch_size", "bulk_size"} <= set(params_of(cdr_))
            chk.ob("O3.5", f"{cname}(...) gets batch_size := batch_size, bulk_size := bulk_size", ok, c, f"batch_size={u(b_.get('batch_size'))} bulk_size={u(b_.get('bulk_size'))}",
                   key=f"{_P}:create_default_reader:{cname}:sizes")
        sup = [c for c in source.calls_in(rinit) if isinstance(c.func, ast.Attribute) and c.func.attr == "__init__" and isinstance(c.func.value, ast.Call) and dotted(c.func.value.func) == "super"] if rinit is not None else []
        if sup and base_init is not None:
            sb = bind_args(sup[0], base_init)
            want_bulk = ("bulk_size * 2", "2 * bulk_size") if cname == "SourceOnlyIndexDataReader" else ("bulk_size",)
            ok = u(sb.get("batch_size")) == "batch_size" and u(sb.get("bulk_size")) in want_bulk
            chk.ob("O3.5", f"{cname} passes (batch size, bulk size{' x 2 lines' if len(want_bulk) == 2 else ''}) on to the base reader in the same roles", ok, sup[0],
                   f"batch_size={u(sb.get('batch_size'))} bulk_size={u(sb.get('bulk_size'))}", key=f"{_P}:{cname}.__init__:sizes")
    chk.ob("O3.5", "reader constructions located in the factory", n_ctor >= 2, cdr_, f"{n_ctor} site(s)")
    bg = pr.func("bulk_generator")
    dd = [x for x in walk_body(bg) if isinstance(x, ast.Dict) and any(source.is_const(k_, "bulk-size") for k_ in x.keys)]
    ok = False
    if dd:
        dct = {k_.value: v for k_, v in zip(dd[0].keys, dd[0].values) if isinstance(k_, ast.Constant)}
        lp = source.enclosing(dd[0], ast.For)
        ok = lp is not None and isinstance(lp.target, ast.Tuple) and len(lp.target.elts) == 2 and all(isinstance(t, ast.Name) for t in lp.target.elts) and "body" in dct \
            and pat.is_(dct["bulk-size"], "V_n", binds={"n": lp.target.elts[0].id}) and pat.is_(dct["body"], "V_b", binds={"b": lp.target.elts[1].id})
    chk.ob("O3.5", "emitted bulk-size / body are the bulk's own count / lines", ok, dd[0] if dd else bg, "")

    # ---- O3.6 conflict ids ---------------------------------------------------------------------------------------------------------------------------------
    chk.rule("O3.6", "conflict path: only under id_up_to > 0; index in [0, id_up_to - 1] (randint(0, up - 1) / round((up - 1) * (1 - r)) with r = min(.., 1)); id_up_to grows by one only on the "
             "non-conflict path; ids are offset by the slice offset; with conflicts enabled the id window (one per parameter source) serves one client", 6,
             "a conflicting action refers to an id this client has not emitted yet (or to another client's id)")
    GA = pr.cls("GenerateActionMetaData")
    gn = _meth(pr, GA, "__next__")
    gg = cfg_of(gn)
    subs = [x for x in walk_body(gn) if isinstance(x, ast.Subscript) and is_self_attr(x.value, "conflicting_ids")]
    idx_subs = [x for x in subs if isinstance(x.slice, ast.Name) and x.slice.id != "self"]
    if not idx_subs:
        raise AnchorMissing("conflict-path subscript of conflicting_ids")
    cs = idx_subs[0]
    gs = guards(cs)
    ats = [u(a) for t, pol in gs if pol for a in (t.values if isinstance(t, ast.BoolOp) and isinstance(t.op, ast.And) else [t])]
    chk.ob("O3.6", "conflict path only when ids were already emitted (id_up_to > 0)", holds(cs, "self.id_up_to > 0"), cs, f"{ats}")
    iv = cs.slice.id
    idefs = [x for x in walk_body(gn) if isinstance(x, ast.Assign) and u(x.targets[0]) == iv]
    gdefs = local_defs(gn)
    for d in idefs:
        v = d.value
        ok = False
        detail = u(v)
        if isinstance(v, ast.Call) and last_attr(v.func) == "randint" and len(v.args) == 2:
            ok = source.is_const(v.args[0], 0) and rat_equal(v.args[1], parse_expr("self.id_up_to - 1"))
            if not ok:
                detail += " — randint is inclusive: the upper bound must be id_up_to - 1"
        elif isinstance(v, ast.Call) and dotted(v.func) == "round" and len(v.args) == 1:
            a = v.args[0]
            if isinstance(a, ast.BinOp) and isinstance(a.op, ast.Mult):
                fac = [x for x in (a.left, a.right) if rat_equal(x, parse_expr("self.id_up_to - 1"))]
                oth = [x for x in (a.left, a.right) if x not in fac]
                if fac and oth and isinstance(oth[0], ast.BinOp) and isinstance(oth[0].op, ast.Sub) and source.is_const(oth[0].left, 1):
                    rr = gdefs.get(u(oth[0].right))
                    ok = isinstance(rr, ast.Call) and dotted(rr.func) == "min" and any(source.is_const(x, 1) for x in rr.args)
        chk.ob("O3.6", f"conflict index `{short(d, 60)}` stays within [0, id_up_to - 1]", ok, d, detail)
    incs = [x for x in walk_body(gn) if isinstance(x, ast.AugAssign) and is_self_attr(x.target, "id_up_to")]
    ok = len(incs) == 1 and source.is_const(incs[0].value, 1) and isinstance(incs[0].op, ast.Add) and not gg.path_exists(gg.node_of(cs), gg.node_of(incs[0])) and not gg.path_exists(gg.node_of(incs[0]), gg.node_of(cs))
    chk.ob("O3.6", "id_up_to += 1 only on the non-conflict path", ok, incs[0] if incs else gn, "")
    nsub = [x for x in subs if is_self_attr(x.slice, "id_up_to")]
    ok = bool(nsub) and bool(incs) and gg.dominated_by_nodes(gg.node_of(incs[0]), [gg.node_of(nsub[0])])
    chk.ob("O3.6", "a fresh id is the next unused one (ids[id_up_to], then advance)", ok, nsub[0] if nsub else gn, "")
    bc = pr.func("build_conflicting_ids")
    fm = [x for x in walk_body(bc) if isinstance(x, ast.BinOp) and isinstance(x.op, ast.Mod) and isinstance(x.left, ast.Constant) and isinstance(x.left.value, str)]
    lp = source.enclosing(fm[0], ast.For) if fm else None
    bcp = params_of(bc)
    if len(bcp) < 3:
        raise AnchorMissing(f"build_conflicting_ids(): (conflicts, docs, offset) parameters expected, found {bcp}")
    ok = bool(fm) and lp is not None and isinstance(lp.target, ast.Name) and rat_equal(fm[0].right, parse_expr(f"{bcp[2]} + {lp.target.id}")) and u(lp.iter) == f"range({bcp[1]})"
    chk.ob("O3.6", "ids are offset + i for i in range(docs of this slice) (no collisions across clients)", ok, fm[0] if fm else bc, "")
    bcall = [c for c in source.calls_in(cdr) if last_attr(c.func) == "build_conflicting_ids"]
    ok = bool(bcall) and [u(a) for a in bcall[0].args] == ["id_conflicts", "num_docs", "offset"]
    chk.ob("O3.6", "id list built for this slice's (docs, offset)", ok, bcall[0] if bcall else cdr, "")
    # the emitted prefix [0, id_up_to) is an attribute of the action/meta-data generator, i.e. of ONE reader of ONE partition source; it is the prefix "this client has emitted" only
    # if no other client draws bulks from the same source. Decided on values: the body of the task-level partition() is evaluated for every conflict mode for which
    # build_conflicting_ids() builds an id list; what it hands to the client must have been created for this call (not an object made once in the constructor and given to every
    # co-located client).
    BIP, PBS = pr.cls("BulkIndexParamSource"), pr.cls("PartitionBulkIndexParamSource")
    part, bi_init = _meth(pr, BIP, "partition"), _meth(pr, BIP, "__init__")
    enum_names = set()
    for n in walk_body(bc):
        if isinstance(n, ast.Compare) and len(n.ops) == 1:
            for a_, b_ in ((n.left, n.comparators[0]), (n.comparators[0], n.left)):
                if pat.is_(a_, "V_c", binds={"c": bcp[0]}) and isinstance(b_, ast.Attribute) and dotted(b_.value) is not None:
                    enum_names.add(dotted(b_.value))
    if len(enum_names) != 1:
        raise AnchorMissing(f"build_conflicting_ids(): the conflict-mode enumeration its first parameter is compared with (found {sorted(enum_names)})")
    EN = enum_names.pop()
    members = [t.id for x in pr.cls(EN).body if isinstance(x, ast.Assign) for t in x.targets if isinstance(t, ast.Name)]
    menv = {f"{EN}.{m_}": m_ for m_ in members}
    windowed = []
    for m_ in members:
        try:
            r_ = _exec(bc.body, {bcp[0]: m_, **menv}, pr.imports)
            if not (r_[0] == "return" and r_[1] is None):
                windowed.append(m_)
        except _CannotStmt as x:
            if not isinstance(x.node, (ast.For, ast.While)):
                raise AnchorMissing(f"build_conflicting_ids(): {x}")
            windowed.append(m_)  # reached the loop that builds the id list
        except (_Cannot, _Raised) as x:
            raise AnchorMissing(f"build_conflicting_ids() cannot be evaluated for mode {m_}: {x}")
    mode_attr = sorted({x.targets[0].attr for x in walk_body(bi_init) if isinstance(x, ast.Assign) and is_self_attr(x.targets[0]) and dotted(x.value) in menv})
    shared = sorted({x.targets[0].attr for x in walk_body(bi_init) if isinstance(x, ast.Assign) and is_self_attr(x.targets[0]) and isinstance(x.value, ast.Call) and last_attr(x.value.func) == PBS.name})
    if len(mode_attr) != 1 or not windowed or len(windowed) == len(members):
        raise AnchorMissing(f"BulkIndexParamSource: conflict-mode attribute {mode_attr}, modes with an id list {windowed} of {members}")

    class _Src:
        def __init__(self, origin, fresh):
            self.origin, self.fresh = origin, fresh

    def _own(h):
        def call(c, env):
            env2 = {k_: v for k_, v in env.items() if "." in k_}
            for k_, a in bind_args(c, h).items():
                try:
                    env2[k_] = _val(a, env, pr.imports, hooks)
                except _Cannot:
                    env2[k_] = _OPAQUE
            return _exec(h.body, env2, pr.imports, hooks)[1]
        return call

    hooks = {PBS.name: lambda c, env: _Src(short(c, 60), True)}
    hooks.update({f"self.{h.name}": _own(h) for h in pr.methods(BIP).values() if h is not part and h.name != "__init__"})
    pp = _own_params(part)
    bad_modes, handed = [], set()
    try:
        for m_ in windowed:
            env = {f"self.{mode_attr[0]}": m_, **menv, **{f"self.{a_}": _Src(f"self.{a_} (created once in __init__)", False) for a_ in shared}, **{p_: i_ for i_, p_ in enumerate(pp)}}
            v = _exec(part.body, env, pr.imports, hooks)[1]
            if not isinstance(v, _Src):
                raise _Cannot(f"what partition() returns for mode {m_} is not a partition parameter source the rule can follow")
            handed.add(v.origin)
            if not v.fresh:
                bad_modes.append(m_)
        chk.ob("O3.6", "with id conflicts enabled each client draws from an id window of its own: partition() hands every client a parameter source created for it", not bad_modes, part,
               f"conflict modes {bad_modes}: every co-located client receives {sorted(handed)} - one reader, one id_up_to: a client's conflicting ids are drawn from ids the GROUP emitted"
               if bad_modes else f"modes {windowed}: {sorted(handed)}", key=f"{_P}:BulkIndexParamSource.partition:shared-id-window")
    except (_Cannot, _Raised) as x:
        chk.unknown("O3.6", f"BulkIndexParamSource.partition() cannot be evaluated on values: {x}", part)

    # ---- O3.9 every reader is consumed exactly once ---------------------------------------------------------------------------------------------------------
    chk.rule("O3.9", "reader factory: corpora are rotated (not filtered) for staggering; a reader is created for every document set with a non-empty share; the staggering loop moves every "
             "created reader into the result exactly once; chain() runs every reader inside its context; the bulk generator walks every batch and bulk", 6,
             "a whole corpus file is never ingested (or ingested twice) for some client index / number of corpora")
    cdefs3 = local_defs(cr)
    # roles: the document-set loop is the loop around the bounds() call, the corpus loop the one around that; the rotated list is what the corpus loop iterates over
    bcs = [c for c in source.calls_in(cr) if last_attr(c.func) == "bounds"]
    il0 = source.enclosing(bcs[0], ast.For) if bcs else None
    ol0 = source.enclosing(il0, ast.For) if il0 is not None else None
    rotv = ol0.iter.id if ol0 is not None and isinstance(ol0.iter, ast.Name) else None
    rot = cdefs3.get(rotv) if rotv else None
    mb = pat.match(rot, "corpora[V_k:] + corpora[:V_k]")
    k_ = cdefs3.get(mb["k"]) if mb else None
    ok = mb is not None and pat.is_(k_, "start_client_index % len(corpora)") and {"corpora", "start_client_index"} <= set(crp)
    chk.ob("O3.9", "corpora rotated by start % len (every corpus kept once)", ok, rot if rot is not None else cr, u(rot) if rot is not None else "")
    ol = [ol0] if ol0 is not None and rotv is not None and any(n is ol0 for n in walk_body(cr)) else []
    il = [il0] if ol and isinstance(ol0.target, ast.Name) and pat.is_(il0.iter, "V_c.documents", binds={"c": ol0.target.id}) else []
    ok = bool(ol) and bool(il)
    chk.ob("O3.9", "every document set of every (rotated) corpus is visited", ok, ol[0] if ol else cr, "")
    RQ = CNT = CRS = None
    if il:
        mk = [n for n in ast.walk(il[0]) if isinstance(n, ast.Call) and u(n.func) == "create_reader"]
        # roles: the reader is the local the factory call is assigned to; the queue is what it is appended to; the counter is the local advanced in the document-set loop
        rdv_ = _target_name(mk[0]) if mk else None
        ap_ = [n for n in ast.walk(il[0]) if isinstance(n, ast.Call) and rdv_ is not None and pat.is_(n, "V_q.append(V_r)", binds={"r": rdv_})]
        inc_ = [n for n in ast.walk(il[0]) if isinstance(n, ast.AugAssign) and isinstance(n.target, ast.Name)]
        fs_ = pat.fact_nodes(mk[0], stop=il[0]) if mk else None
        gs_ = [u(t) for t in fs_] if fs_ is not None else None
        ok = len(mk) == 1 and len(ap_) == 1 and len(inc_) == 1 and DOCS is not None and len(fs_) == 1 and pat.is_(fs_[0], "V_d > 0", binds={"d": DOCS}) and isinstance(inc_[0].op, ast.Add) and source.is_const(inc_[0].value, 1) \
            and _same_block(inc_[0], source.enclosing_stmt(ap_[0])) and _same_block(source.enclosing_stmt(mk[0]), source.enclosing_stmt(ap_[0]))
        if ok:
            RQ, CNT = ap_[0].func.value.id, inc_[0].target.id
            # the queue is a fresh one per corpus
            ok = any((isinstance(x, ast.AnnAssign) and isinstance(x.target, ast.Name) and x.target.id == RQ) or (isinstance(x, ast.Assign) and any(isinstance(t, ast.Name) and t.id == RQ for t in x.targets)) for x in ol[0].body)
        chk.ob("O3.9", "a reader per document set with a non-empty share, counted once", ok, mk[0] if mk else il[0], f"guards={gs_}")
        qa = [n for n in ast.walk(ol[0]) if isinstance(n, ast.Call) and RQ is not None and pat.is_(n, "V_all.append(V_q)", binds={"q": RQ})]
        ok = len(qa) == 1 and any(x is source.enclosing_stmt(qa[0]) for x in ol[0].body)
        CRS = qa[0].func.value.id if ok else None
        chk.ob("O3.9", "every corpus queue is kept", ok, qa[0] if qa else ol[0], "")
    wl_ = [n for n in walk_body(cr) if isinstance(n, ast.While)]
    ok = False
    if wl_:
        W_ = wl_[0]
        # roles: the result is the (initially empty) list the factory returns; the queues walked are the kept corpus queues; the loop counter is the reader counter
        resv = _returned_name(cr)
        pops = [n for n in ast.walk(W_) if isinstance(n, ast.Call) and last_attr(n.func) == "popleft"]
        decs = [n for n in ast.walk(W_) if isinstance(n, ast.AugAssign) and CNT is not None and pat.is_(n.target, "V_n", binds={"n": CNT}) and isinstance(n.op, ast.Sub) and source.is_const(n.value, 1)]
        qv = pops[0].func.value.id if len(pops) == 1 and isinstance(pops[0].func, ast.Attribute) and isinstance(pops[0].func.value, ast.Name) else None
        ql = source.enclosing(pops[0], ast.For) if qv else None
        fs_ = pat.fact_nodes(pops[0], stop=W_) if qv else []
        ok = CNT is not None and pat.is_(W_.test, "V_n > 0", binds={"n": CNT}) and len(pops) == 1 and len(decs) == 1 and qv is not None and resv is not None and _empty_list_local(cr, resv) \
            and isinstance(source.parent(pops[0]), ast.Call) and pat.is_(source.parent(pops[0]), "V_res.append(V_q.popleft())", binds={"res": resv, "q": qv}) \
            and _same_block(decs[0], source.enclosing_stmt(pops[0])) and len(fs_) == 1 and pat.is_(fs_[0], "V_q", binds={"q": qv}) \
            and ql is not None and any(x is ql for x in W_.body) and pat.is_(ql.target, "V_q", binds={"q": qv}) and CRS is not None and pat.is_(ql.iter, "V_all", binds={"all": CRS})
    chk.ob("O3.9", "staggering moves every created reader into the result exactly once", ok, wl_[0] if wl_ else cr, "")
    chf = pr.func("chain")
    ok = any(isinstance(n, ast.With) and any(isinstance(x, ast.Expr) and isinstance(x.value, ast.YieldFrom) for x in n.body) for n in walk_body(chf)) and any(isinstance(n, ast.For) and "is not None" in u(n.iter) for n in walk_body(chf))
    chk.ob("O3.9", "chain(): every (non-None) reader is opened and fully delegated to", ok, chf, "")
    bgl = [n for n in walk_body(bg) if isinstance(n, ast.For)]
    ok = len(bgl) == 2 and u(bgl[0].iter) == "readers" and not any(isinstance(x, (ast.Break, ast.Continue)) or (isinstance(x, ast.If) and any(isinstance(y, ast.Continue) for y in x.body)) for x in ast.walk(bgl[0]))
    ys = [n for n in ast.walk(bg) if isinstance(n, ast.Yield)]
    ok = ok and len(ys) == 1 and not any("pipeline" not in u(t) for t, pol in guards(ys[0], stop=bgl[1]))
    chk.ob("O3.9", "bulk generator yields every bulk of every batch", ok, bg, "")

    # ---- O3.7 offset table ------------------------------------------------------------------------------------------------------------------------------------
    from rules.C14 import offset_table_protocol

    offset_table_protocol(chk, io_, "O3.7")
    from rules.C14 import line_count_rule

    ldr_ = repo.module("esrally/track/loader.py")
    chk.use(ldr_)
    line_count_rule(chk, "O3.7", ldr_)
    _stale_table_rule(chk, ldr_, io_)

    # ---- O3.8 bulk counting and percentage cut-off --------------------------------------------------------------------------------------------------------------
    chk.rule("O3.8", "per file the bulk count is the ceiling division of the slice's documents by the bulk size; total_bulks == ceil(all_bulks * p / 100) exactly (also for fractional p); "
             "params() raises StopIteration at current == total unless looped and increments current once per returned bulk; progress is current / total and is defined for a total of 0", 5,
             "with ingest percentage p the group stops one bulk early/late; without it the tail of the slice is never ingested")
    # roles: the bulk counter is the local number_of_bulks() returns; the slice's document count is position 1 of its bounds() unpack
    bulkv = _returned_name(nb)
    acc = [x for x in walk_body(nb) if isinstance(x, ast.AugAssign) and isinstance(x.op, ast.Add) and bulkv is not None and pat.is_(x.target, "V_b", binds={"b": bulkv})]
    ndefs = {}
    for x in walk_body(nb):
        if isinstance(x, ast.Assign) and isinstance(x.targets[0], ast.Tuple) and isinstance(x.value, ast.Tuple):
            for t, v in zip(x.targets[0].elts, x.value.elts):
                ndefs[u(t)] = v
        elif isinstance(x, ast.Assign) and isinstance(x.targets[0], ast.Name):
            ndefs[u(x.targets[0])] = x.value
    bsz = params_of(nb)[4]
    ok = False
    nd_ = {"d": NB_DOCS}
    zero = [x for x in walk_body(nb) if isinstance(x, ast.Assign) and bulkv is not None and any(pat.is_(t, "V_b", binds={"b": bulkv}) for t in x.targets)]
    loopv = {t.id for x in walk_body(nb) if isinstance(x, ast.For) for t in ast.walk(x.target) if isinstance(t, ast.Name)}
    idefs_ = {k_: v for k_, v in ndefs.items() if k_ != NB_DOCS and k_ != bulkv and k_ not in loopv}
    start0 = NB_DOCS is not None and len(zero) == 1 and source.is_const(zero[0].value, 0) and source.parent(zero[0]) is nb
    if len(acc) == 2 and start0:
        one = [x for x in acc if source.is_const(x.value, 1)]
        full = [x for x in acc if x not in one]
        if len(one) == 1 and len(full) == 1:
            fe = inline_node(full[0].value, idefs_)
            ok = pat.is_(fe, f"V_d // {bsz}", binds=nd_) and not guards(full[0], stop=source.enclosing(full[0], ast.For)) \
                and any(pat.is_(inline_node(t, idefs_), f"V_d % {bsz} > 0", f"V_d % {bsz} != 0", binds=nd_) for t in pat.fact_nodes(one[0], stop=source.enclosing(one[0], ast.For)))
    elif len(acc) == 1 and start0:
        v = inline_node(acc[0].value, idefs_)
        ok = pat.is_(v, f"math.ceil(V_d / {bsz})", f"-(-V_d // {bsz})", f"(V_d + {bsz} - 1) // {bsz}", binds=nd_) and not guards(acc[0], stop=source.enclosing(acc[0], ast.For))
    chk.ob("O3.8", "bulks per file == ceil(docs / bulk size)", ok, acc[0] if acc else nb, "")
    tb = [x for x in walk_body(ii) if isinstance(x, ast.Assign) and is_self_attr(x.targets[0], "total_bulks")]
    allv = _target_name(c2[0])  # role: the local holding the counter's result
    # role: the attribute holding the ingest percentage = the constructor parameter that receives the value read from the user's "ingest-percentage" setting
    BI = pr.cls("BulkIndexParamSource")
    binit, pinit = _meth(pr, BI, "__init__"), _meth(pr, PB, "__init__")
    src_attr = [x.targets[0].attr for x in walk_body(binit) if isinstance(x, ast.Assign) and is_self_attr(x.targets[0]) and isinstance(x.value, ast.Call)
                and any(source.is_const(a, "ingest-percentage") for a in list(x.value.args) + [k_.value for k_ in x.value.keywords])]
    ctor = [c for c in source.calls_in(binit) if last_attr(c.func) == PB.name]
    pct_param = [k_ for k_, v in bind_args(ctor[0], pinit).items() if src_attr and is_self_attr(v, src_attr[0])] if ctor else []
    pct_attr = [x.targets[0].attr for x in walk_body(pinit) if isinstance(x, ast.Assign) and is_self_attr(x.targets[0]) and pct_param and pat.is_(x.value, "V_p", binds={"p": pct_param[0]})]
    if len(pct_attr) != 1:
        raise AnchorMissing(f"the attribute of {PB.name} that stores the 'ingest-percentage' setting (found {pct_attr})")

    def cutoff(nbulks, p):
        """value of total_bulks after _init_internal_params() for a group with `nbulks` bulks and ingest percentage p (the counter's result is fixed, everything else is evaluated)."""
        env = {allv: nbulks, f"self.{pct_attr[0]}": p}
        _exec(ii.body, env, pr.imports, keep=(allv,))
        if env.get("self.total_bulks", _OPAQUE) is _OPAQUE:
            raise _Cannot("no computable value is assigned to total_bulks")
        return env["self.total_bulks"]

    # decided on VALUES: the extracted computation is evaluated for bulk counts / percentages whose exact product is (and is not) an integer; binary floating point gets the first rows wrong
    ok, detail, empty_total = bool(tb) and allv is not None and local_defs(ii).get(allv) is c2[0], "total_bulks is not computed from the counter's result", None
    if ok:
        try:
            detail = u(tb[0].value)
            for nb_, p_, want in _CUTOFF_ROWS:
                try:
                    got = cutoff(nb_, p_)
                except _Raised as x:
                    got = f"raises {x}"
                if isinstance(got, bool) or not isinstance(got, _NUM) or got != want:
                    ok, detail = False, f"{nb_} bulks at {p_}%: {got!r} instead of {want}   [{u(tb[0].value)}]"
                    break
            try:
                empty_total = cutoff(0, 100.0)
            except _Raised:
                pass
        except _Cannot as x:
            ok = None
            chk.unknown("O3.8", f"total_bulks cannot be evaluated on values: {x}", tb[0])
    if ok is not None:
        chk.ob("O3.8", "total_bulks == ceil(all_bulks * p / 100)", ok, tb[0] if tb else ii, detail)
    pm = _meth(pr, PB, "params")
    gpm = cfg_of(pm)
    stop = [x for x in walk_body(pm) if isinstance(x, ast.Raise) and "StopIteration" in u(x.exc)]
    ok = bool(stop) and (holds(stop[0], "self.current_bulk == self.total_bulks") or holds(stop[0], "self.current_bulk >= self.total_bulks")) and holds(stop[0], "not self.looped")
    chk.ob("O3.8", "StopIteration at current == total unless looped", ok, stop[0] if stop else pm, "")
    inc = [x for x in walk_body(pm) if isinstance(x, ast.AugAssign) and is_self_attr(x.target, "current_bulk")]
    rt = [x for x in walk_body(pm) if isinstance(x, ast.Return)]
    ok = len(inc) == 1 and source.is_const(inc[0].value, 1) and not guards(inc[0]) and len(rt) == 1 and u(rt[0].value) == "next(self.internal_params)" and gpm.dominated_by_nodes(gpm.node_of(rt[0]), [gpm.node_of(inc[0])])
    chk.ob("O3.8", "current += 1 once per returned bulk", ok, inc[0] if inc else pm, "")
    ok = any(isinstance(x, ast.Call) and u(x.func) == "self._init_internal_params" and holds(x, "self.current_bulk == 0") for x in walk_body(pm))
    chk.ob("O3.8", "readers and totals initialised before the first bulk", ok, pm, "")
    pc = pr.methods(PB).get("percent_completed")

    def progress(cur, tot):
        return _exec(pc.body, {"self.current_bulk": cur, "self.total_bulks": tot}, pr.imports)[1]

    ok, detail = pc is not None, "" if pc is not None else "no percent_completed"
    if pc is not None:
        try:
            for cur, tot in ((0, 1), (1, 4), (3, 4), (4, 4), (1, 3), (33, 33), (17, 10 ** 12)):
                try:
                    got = progress(cur, tot)
                except _Raised as x:
                    got = f"raises {x}"
                if isinstance(got, bool) or not isinstance(got, _NUM) or abs(got - cur / tot) > 1e-12:
                    ok, detail = False, f"bulk {cur} of {tot}: {got!r} instead of {cur / tot}"
                    break
        except _Cannot as x:
            ok = None
            chk.unknown("O3.8", f"percent_completed cannot be evaluated on values: {x}", pc)
    if ok is not None:
        chk.ob("O3.8", "progress == current / total bulks", ok, pc if pc else PB, detail)
    # a group whose slice holds no document has total_bulks == ceil(0 * p / 100) == 0 after its first params() call (which ends in StopIteration as it must); the next co-located
    # client's schedule then reads percent_completed (hasattr() / the loop of ScheduleHandle): an exception there is not a StopIteration, it aborts the race for ALL clients
    if pc is not None and empty_total is not None:
        try:
            try:
                got, ok = progress(0, empty_total), True
            except _Raised as x:
                got, ok = f"raises {x}", False
            chk.ob("O3.8", "progress of a group without documents is defined (no division by its total of 0 bulks)", ok, pc,
                   f"all_bulks == 0 -> total_bulks == {empty_total!r}; percent_completed at bulk 0 of {empty_total!r}: {got!r}", key=f"{_P}:{PB.name}.percent_completed:empty-partition")
        except _Cannot as x:
            chk.unknown("O3.8", f"percent_completed cannot be evaluated for an empty partition: {x}", pc)

from sa.selftest import V  # noqa: E402

VARIANTS = [
    V("docs computed directly", "break", _P, "    docs = end_offset_docs - start_offset_docs", "    docs = round(docs_per_client * (end_client_index - start_client_index + 1))", "O3.1"),
    V("end rounds differently", "break", _P, "    end_offset_docs = round(docs_per_client * (end_client_index + 1))", "    end_offset_docs = int(docs_per_client * (end_client_index + 1))", "O3.1"),
    V("offset without k", "break", _P, "    offset_lines = start_offset_docs * source_lines_per_doc", "    offset_lines = start_offset_docs", "O3.1"),
    V("counter slices differently", "break", _P, "            _, num_docs, _ = bounds(\n                docs.number_of_documents, start_partition_index, end_partition_index, total_partitions, docs.includes_action_and_meta_data\n            )",
      "            _, num_docs, _ = bounds(\n                docs.number_of_documents, start_partition_index, start_partition_index, total_partitions, docs.includes_action_and_meta_data\n            )", "O3.2"),
    V("seed m2: counter gets the batch size", "break", _P, "        all_bulks = number_of_bulks(self.corpora, start_index, end_index, self.total_partitions, self.bulk_size)", "        all_bulks = number_of_bulks(self.corpora, start_index, end_index, self.total_partitions, self.batch_size)", "O3.2"),
    V("lines and docs swapped at the factory call", "break", _P, "                    docs, offset, num_lines, num_docs, batch_size, bulk_size, id_conflicts, conflict_probability, on_conflict, recency\n                )\n                reader_queue", "                    docs, offset, num_docs, num_lines, batch_size, bulk_size, id_conflicts, conflict_probability, on_conflict, recency\n                )\n                reader_queue", "O3.2"),
    V("read without the progress term", "break", _P, "        lines = self.source.readlines(min(self.bulk_size, self.number_of_lines - self.current_line))", "        lines = self.source.readlines(min(self.bulk_size, self.number_of_lines))", "O3.3"),
    V("progress never advanced", "break", _P, "        self.current_line += len(lines)\n        if len(lines) == 0:", "        if len(lines) == 0:", "O3.3"),
    V("source-only without * 2", "break", _P, "        super().__init__(data_file, batch_size, bulk_size * 2, file_source, index_name, type_name)", "        super().__init__(data_file, batch_size, bulk_size, file_source, index_name, type_name)", "O3.4"),
    V("fast path drops the action line for the first doc", "break", _P, "        for doc in docs:\n            current_bulk.append(action_metadata_line)\n            current_bulk.append(doc)\n        return len(docs), current_bulk", "        for doc in docs:\n            if current_bulk:\n                current_bulk.append(action_metadata_line)\n            current_bulk.append(doc)\n        return len(docs), current_bulk", "O3.4"),
    V("seed m3: randint upper bound inclusive", "break", _P, "                    idx = self.randint(0, self.id_up_to - 1)", "                    idx = self.randint(0, self.id_up_to)", "O3.6"),
    V("ids without the slice offset", "break", _P, "        all_ids[i] = \"%010d\" % (offset + i)", "        all_ids[i] = \"%010d\" % i", "O3.6"),
    V("floor for the percentage", "break", _P, "        self.total_bulks = math.ceil(fractions.Fraction(str(self.ingest_percentage)) * all_bulks / 100)",
      "        self.total_bulks = math.floor(fractions.Fraction(str(self.ingest_percentage)) * all_bulks / 100)", "O3.8"),
    # F27 (repaired by dffd3c1): the cut-off is computed exactly
    V("F27 reverted: cut-off in binary floating point", "break", _P, "        self.total_bulks = math.ceil(fractions.Fraction(str(self.ingest_percentage)) * all_bulks / 100)",
      "        self.total_bulks = math.ceil((all_bulks * self.ingest_percentage) / 100)", "O3.8"),
    V("F27: exact fraction of the float itself (not of the decimal the user wrote)", "break", _P, "        self.total_bulks = math.ceil(fractions.Fraction(str(self.ingest_percentage)) * all_bulks / 100)",
      "        self.total_bulks = math.ceil(fractions.Fraction(self.ingest_percentage) * all_bulks / 100)", "O3.8"),
    # F26 (repaired by 5186571): progress of a group without documents
    V("F26 reverted: progress divides by a total of 0 bulks", "break", _P, "        return self.current_bulk / self.total_bulks if self.total_bulks else 1.0", "        return self.current_bulk / self.total_bulks", "O3.8"),
    V("F26: guard tests the wrong counter", "break", _P, "        return self.current_bulk / self.total_bulks if self.total_bulks else 1.0", "        return self.current_bulk / self.total_bulks if self.current_bulk else 1.0", "O3.8"),
    # F25 (repaired by d8403e6): a (re)created document file never meets its predecessor's offset table
    V("F25 reverted: decompressed file keeps the old table", "break", _L,
      "                self.decompressor.decompress(archive_path, doc_path, document_set.uncompressed_size_in_bytes)\n                self.invalidate_file_offset_table(doc_path)\n",
      "                self.decompressor.decompress(archive_path, doc_path, document_set.uncompressed_size_in_bytes)\n", "O3.10"),
    V("F25 reverted: downloaded file keeps the old table", "break", _L,
      "                    self.downloader.download(document_set.base_url, target_path, expected_size)\n                    self.invalidate_file_offset_table(doc_path)\n",
      "                    self.downloader.download(document_set.base_url, target_path, expected_size)\n", "O3.10"),
    V("F25 reverted: bundled archive", "break", _L,
      "                    self.decompressor.decompress(archive_path, doc_path, document_set.uncompressed_size_in_bytes)\n                    self.invalidate_file_offset_table(doc_path)\n",
      "                    self.decompressor.decompress(archive_path, doc_path, document_set.uncompressed_size_in_bytes)\n", "O3.10"),
    V("F25: invalidation removes the table only when there is none", "break", _L, "        if os.path.exists(f\"{document_file_path}.offset\"):\n            io.remove_file_offset_table(document_file_path)",
      "        if not os.path.exists(f\"{document_file_path}.offset\"):\n            io.remove_file_offset_table(document_file_path)", "O3.10"),
    V("F25: invalidation looks for another file", "break", _L, "        if os.path.exists(f\"{document_file_path}.offset\"):\n            io.remove_file_offset_table(document_file_path)",
      "        if os.path.exists(f\"{document_file_path}.offsets\"):\n            io.remove_file_offset_table(document_file_path)", "O3.10"),
    V("F25: the archive's table is invalidated instead of the document's", "break", _L,
      "                self.decompressor.decompress(archive_path, doc_path, document_set.uncompressed_size_in_bytes)\n                self.invalidate_file_offset_table(doc_path)\n",
      "                self.decompressor.decompress(archive_path, doc_path, document_set.uncompressed_size_in_bytes)\n                self.invalidate_file_offset_table(archive_path)\n", "O3.10"),
    V("F25: remover deletes another file name", "break", _I, "        os.remove(f\"{data_file_path}.offset\")", "        os.remove(f\"{data_file_path}.offsets\")", "O3.10"),
    V("partial bulk not counted", "break", _P, "            if rest > 0:\n                bulks += 1\n    return bulks", "    return bulks", "O3.8"),
    V("seed m1: offsets accumulated from len(line)", "break", _I, "                        file_offset_table.add_offset(line_number, data_file.tell())", "                        file_offset_table.add_offset(line_number, sum(map(len, [line])))", "O3.7"),
    V("staggering skips the last corpus", "break", _P, "    reordered_corpora = corpora[start_corpora_id:] + corpora[:start_corpora_id]", "    reordered_corpora = corpora[start_corpora_id:]", "O3.9"),
    V("reader created but not counted", "break", _P, "                reader_queue.append(reader)\n                total_readers += 1", "                reader_queue.append(reader)", "O3.9"),
    V("small shares get no reader", "break", _P, "            if num_docs > 0:\n                reader: IndexDataReader = create_reader(", "            if num_docs > bulk_size:\n                reader: IndexDataReader = create_reader(", "O3.9"),
    # preserving
    V("remaining local", "keep", _P, "        lines = self.source.readlines(min(self.bulk_size, self.number_of_lines - self.current_line))", "        remaining = self.number_of_lines - self.current_line\n        lines = self.source.readlines(min(self.bulk_size, remaining))"),
    V("k * docs", "keep", _P, "    lines = docs * source_lines_per_doc", "    lines = source_lines_per_doc * docs"),
    V("F27 respelled: share computed first", "keep", _P, "        self.total_bulks = math.ceil(fractions.Fraction(str(self.ingest_percentage)) * all_bulks / 100)",
      "        share = fractions.Fraction(str(self.ingest_percentage)) / 100\n        self.total_bulks = math.ceil(all_bulks * share)"),
    V("F27 respelled: ceiling as negated floor division of exact operands", "keep", _P, "        self.total_bulks = math.ceil(fractions.Fraction(str(self.ingest_percentage)) * all_bulks / 100)",
      "        self.total_bulks = -((-all_bulks * fractions.Fraction(repr(self.ingest_percentage))) // 100)"),
    V("F27 respelled: full ingest short-cut", "keep", _P, "        self.total_bulks = math.ceil(fractions.Fraction(str(self.ingest_percentage)) * all_bulks / 100)",
      "        if self.ingest_percentage == 100:\n            self.total_bulks = all_bulks\n        else:\n            self.total_bulks = math.ceil(fractions.Fraction(str(self.ingest_percentage)) * all_bulks / 100)"),
    V("F26 respelled: guard clause", "keep", _P, "        return self.current_bulk / self.total_bulks if self.total_bulks else 1.0",
      "        if self.total_bulks == 0:\n            return 1.0\n        return self.current_bulk / self.total_bulks"),
    V("F26 respelled: exception handler", "keep", _P, "        return self.current_bulk / self.total_bulks if self.total_bulks else 1.0",
      "        try:\n            return self.current_bulk / self.total_bulks\n        except ZeroDivisionError:\n            return 1.0"),
    V("F26 respelled: positive-total test, other arm order", "keep", _P, "        return self.current_bulk / self.total_bulks if self.total_bulks else 1.0",
      "        return 1.0 if self.total_bulks <= 0 else self.current_bulk / self.total_bulks"),
    V("F25 respelled: helper inlined at the call", "keep", _L,
      "                self.decompressor.decompress(archive_path, doc_path, document_set.uncompressed_size_in_bytes)\n                self.invalidate_file_offset_table(doc_path)\n",
      "                self.decompressor.decompress(archive_path, doc_path, document_set.uncompressed_size_in_bytes)\n                if os.path.isfile(doc_path + \".offset\"):\n"
      "                    io.remove_file_offset_table(doc_path)\n"),
    V("F25 respelled: table removed before the archive is unpacked", "keep", _L,
      "                    self.decompressor.decompress(archive_path, doc_path, document_set.uncompressed_size_in_bytes)\n                    self.invalidate_file_offset_table(doc_path)\n",
      "                    self.invalidate_file_offset_table(doc_path)\n                    self.decompressor.decompress(archive_path, doc_path, document_set.uncompressed_size_in_bytes)\n"),
    V("F25 respelled: helper with a local and a log line", "keep", _L,
      "        if os.path.exists(f\"{document_file_path}.offset\"):\n            io.remove_file_offset_table(document_file_path)",
      "        table = \"%s.offset\" % document_file_path\n        if os.path.exists(f\"{document_file_path}.offset\"):\n            logging.getLogger(__name__).info(\"Removing [%s].\", table)\n"
      "            io.remove_file_offset_table(document_file_path)"),
    V("ceil written with math.ceil", "keep", _P, "            complete_bulks, rest = (num_docs // bulk_size, num_docs % bulk_size)\n            bulks += complete_bulks\n            if rest > 0:\n                bulks += 1", "            bulks += math.ceil(num_docs / bulk_size)"),
]
